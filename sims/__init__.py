"""Registry of simulation engines, one per claimed property."""
import importlib

_ENGINES = {
    "C03": ("sims.progsim", "ProgSim"),
    "C04": ("sims.histsim", "HistSim"),
    "C05": ("sims.itersim", "IterSim"),
    "C07": ("sims.modesim", "ModeSim"),
    "C08": ("sims.optsim", "OptSim"),
    "C11": ("sims.framesim", "FrameSim"),
    "C12": ("sims.modsim", "ModSim"),
    "C13": ("sims.layersim", "LayerSim"),
    "C15": ("sims.initsim", "InitSim"),
    "C17": ("sims.scalesim", "ScaleSim"),
    "C18": ("sims.datasim", "DataSim"),
    "C19": ("sims.reprosim", "ReproSim"),
    "C20": ("sims.trainsim", "TrainSim"),
}


class _Registry(dict):
    def __contains__(self, k):
        return k in _ENGINES

    def __getitem__(self, k):
        mod, cls = _ENGINES[k]
        return getattr(importlib.import_module(mod), cls)


REGISTRY = _Registry()
