"""scalesim - C17: backward scales to deep graphs; untracked computations keep no history.

First half - a resource fault that only very long programs meet (the interpreter's stack):
chains of 10^3 ... 5*10^4 sequential ops (thorough: 2*10^5), nodes with 10^3-10^4
consumers, ladders of diamonds (path count exponential, node count linear), under a
recursion-limit knob {400, 1000 (default), 3000} (F4) and gc.collect() at chosen points.
Oracle: backward returns; the leaf gradient equals the closed form (ops chosen so it is
exact: powers of two, additions); every recorded op's backward function ran exactly once
(seam); non-retained interior gradients are gone; and the WORK of a sweep grows linearly: a
deterministic counter - interpreter line events inside synapgrad/tensor.py during the sweep
plus calls of Tensor.__eq__/__hash__ (counting versions installed from outside, so a
membership test against a list becomes visible) - for 4x the nodes is <= 4.5x.

Second half - bounded memory of long-running untracked histories: loops of 10^4-10^5
updates x = f(x) inside no_grad, and outside it over operands none of which requires grad,
interleaved with tracked work.  Oracle: weak references to the results of step i are dead a
few steps later (after gc.collect()); the number of live Tensor objects stays below a
constant independent of the loop length.

Not asserted: wall-clock time, memory in bytes.
"""
import gc
import sys
import weakref

import numpy as np

from simkit.core import RunState, Sim
from simkit.world import World, SEAM, SimFault, quiet


class ScaleSim(Sim):
    PROP = "C17"
    NAME = "scalesim"
    QUICK_RUNS = 64
    THOROUGH_RUNS = 1600
    MAX_EVENTS = 3
    RUN_TIMEOUT = 300
    SELFTEST_RUNS = 4
    PROBES = ["chain_depth_ge_10000", "chain_depth_ge_40000", "recursion_limit_400", "recursion_limit_3000", "fanout_ge_5000", "ladder_ge_2000",
              "untracked_no_grad_loop", "untracked_nograd_operands_loop", "untracked_interleaved_with_tracked", "work_scaling_measured",
              "gc_during_build", "chain_with_view_ops", "same_operand_twice_in_chain", "chain_two_sweeps", "chain_retain_ctx", "chain_retain_every",
              "untracked_body_mul_param_add_param", "untracked_body_functional", "untracked_body_linear", "untracked_body_views", "untracked_body_unbind", "untracked_body_new_scalar_each_step", "detached_loop_bptt", "detached_loop_log", "fault_mid_deep_sweep_then_retry",
              "unrelated_sweeps_between_deep_sweeps", "untracked_loop_inside_retain_grads", "nested_no_grad_left_by_exception_in_loop",
              "same_no_grad_object_reentered_in_loop", "tracked_value_folded_into_untracked_loop", "untracked_loop_named_tensors"]
    RULE = ("one run = 1-3 large scenarios (deep chain / wide fan-out / diamond ladder / untracked loop / work-scaling pair) with seeded sizes, op "
            "patterns, recursion-limit knob and gc schedule; distinct = scenario family x size bucket x recursion limit; non-trivial = every run")
    ASSUMPTIONS = ["cost is judged on deterministic work counters (line events in tensor.py, Tensor.__eq__/__hash__ calls), not on time: "
                   "a super-linear cost hidden inside one C-level call stays invisible"]

    def knobs(self, rng, tier):
        return {"max_events": rng.randint(1, 3), "limit": rng.choice([400, 1000, 1000, 3000]), "big": tier == "thorough" and rng.random() < 0.15}

    def start(self, knobs):
        st = RunState(knobs)
        st.world = World()
        st.SG = st.world.SG
        st.nontrivial = True
        return st

    def gen(self, rng, st):
        kn = st.knobs
        fam = rng.choice(["chain", "chain", "chain", "fanout", "ladder", "untracked", "untracked", "work"])
        if fam == "chain":
            depth = rng.choice([1000, 2500, 6000, 12000, 25000, 50000])
            if kn["big"]:
                depth = rng.choice([100000, 200000])
            return {"k": "chain", "depth": depth, "seed": rng.randrange(10 ** 6), "views": rng.random() < 0.4, "gc_every": rng.choice([0, 0, 5000]),
                    "limit": kn["limit"], "retain": rng.choice(["none", "none", "some", "ctx", "every"]), "sweeps": rng.choice([1, 1, 2, 2, 3]),
                    "others_between": rng.choice([0, 0, 1, 1, 2, 3]),
                    "fault": ({"kind": rng.choice(["alloc", "interrupt", "exit"]), "at": rng.randint(1, max(1, depth - 1))} if rng.random() < 0.3 else None)}
        if fam == "fanout":
            return {"k": "fanout", "n": rng.choice([1000, 3000, 6000, 10000]), "limit": kn["limit"]}
        if fam == "ladder":
            return {"k": "ladder", "n": rng.choice([500, 2000, 5000, 12000]), "limit": kn["limit"]}
        if fam == "untracked":
            if rng.random() < 0.3:
                return {"k": "detached", "n": rng.choice([300, 1000, 3000]), "pattern": rng.choice(["bptt", "log", "numpy_roundtrip"]), "limit": kn["limit"]}
            return {"k": "untracked", "n": rng.choice([10000, 30000, 100000]), "mode": rng.choice(["no_grad", "nograd_operands"]),
                    "body": rng.choice(["scale_add", "mul_param_add_param", "functional", "linear", "views", "unbind", "new_scalar_each_step"]),
                    "tracked_every": rng.choice([0, 0, 2500]), "limit": kn["limit"],
                    "retain_ctx": rng.random() < 0.3, "nested_exc_every": rng.choice([0, 0, 3000]),
                    "fold_tracked_every": rng.choice([0, 0, 7, 500]), "reenter_same_every": rng.choice([0, 0, 1500]),
                    "named": rng.random() < 0.4}
        return {"k": "work", "n": rng.choice([400, 800]), "shape": rng.choice(["chain", "ladder", "fanin", "fanout"])}

    def _preflight(self, st):
        """tiny ladders first: work that grows with the number of PATHS (2^n) instead of nodes shows at n = 6 vs 12 and would never
        finish at the sizes below"""
        sys.setrecursionlimit(100000)
        try:
            w1, _ = self._measure(st, 6, "ladder")
            w2, _ = self._measure(st, 12, "ladder")
        finally:
            sys.setrecursionlimit(1000)
        if w2 > 2.6 * w1:
            st.fail("C17.linear_cost", f"ladder of 6 vs 12 diamonds: deterministic work counter {w1} -> {w2} (x{w2 / max(w1, 1):.1f} for 2x the nodes): "
                    "the cost of backward grows with the number of paths, not with the size of the graph")

    def apply(self, st, ev):
        if not getattr(st, "preflight_done", False):
            st.preflight_done = True
            self._preflight(st)
        if "limit" in ev:
            sys.setrecursionlimit(ev["limit"])
            if ev["limit"] == 400: st.probes["recursion_limit_400"] += 1
            if ev["limit"] == 3000: st.probes["recursion_limit_3000"] += 1
        try:
            getattr(self, "_ev_" + ev["k"])(st, ev)
        finally:
            sys.setrecursionlimit(1000)

    # ------------------------------------------------------------------ helpers
    def _backward_checked(self, st, root, g, n_ops_created, what):
        SG = st.SG
        SEAM.bw_calls = []
        try:
            with quiet():
                root.backward(SG.Tensor(g.copy()))
        except RecursionError as e:
            SEAM.bw_calls = None
            st.fail("C17.deep_backward", f"{what}: backward raised RecursionError (recursion limit {sys.getrecursionlimit()}): the graph fits in memory, "
                    "the traversal does not scale to its depth")
        except Exception as e:
            SEAM.bw_calls = None
            st.fail("C17.deep_backward", f"{what}: backward raised {type(e).__name__}: {e}")
        calls = SEAM.bw_calls
        SEAM.bw_calls = None
        ids = [id(c) for c in calls]
        if len(ids) != len(set(ids)):
            st.fail("C17.exactly_once", f"{what}: a backward function was invoked more than once ({len(ids)} calls, {len(set(ids))} distinct)")
        if len(ids) != n_ops_created:
            st.fail("C17.exactly_once", f"{what}: {len(ids)} backward-function invocations for {n_ops_created} recorded operations")

    def _ev_chain(self, st, ev):
        import random
        SG = st.SG
        rng = random.Random(ev["seed"])
        depth = ev["depth"]
        st.sig.append(f"chain:{depth // 5000}:{ev['limit']}")
        x = SG.Tensor(np.array([1.0, -2.0, 0.5]), requires_grad=True)
        SEAM.bw_created = []
        cur = x
        d = 1.0
        level = 0
        probes_kept = []
        retain = ev.get("retain", "some" if ev.get("retain_some") else "none")
        sweeps = ev.get("sweeps", 1)
        rctx = SG.sg.retain_grads() if retain == "ctx" else None
        if rctx is not None:
            rctx.__enter__()
        with quiet():
            for i in range(depth):
                r = rng.random()
                if r < 0.30:
                    if level <= 0:
                        cur = cur * 2.0; d *= 2.0; level += 1
                    else:
                        cur = cur * 0.5; d *= 0.5; level -= 1
                elif r < 0.5:
                    cur = cur + 0.25
                elif r < 0.6:
                    cur = -cur; d = -d
                elif r < 0.7 and level <= 0:
                    cur = cur + cur; d *= 2.0; level += 1
                    st.probes["same_operand_twice_in_chain"] += 1 if i < 3 else 0
                elif r < 0.8 and ev["views"]:
                    cur = cur.reshape((3, 1)).transpose(0, 1).reshape((3,))
                elif r < 0.85:
                    cur = cur.clone()
                else:
                    cur = cur - 0.125
                if retain == "every" and cur.requires_grad:
                    cur.retain_grad()
                if i % 997 == 0:
                    probes_kept.append(cur)
                if ev["gc_every"] and i and i % ev["gc_every"] == 0:
                    gc.collect()
                    st.probes["gc_during_build"] += 1
        created = SEAM.bw_created
        SEAM.bw_created = None
        if ev["views"]:
            st.probes["chain_with_view_ops"] += 1
        if depth >= 10000: st.probes["chain_depth_ge_10000"] += 1
        if depth >= 40000: st.probes["chain_depth_ge_40000"] += 1
        retained = None
        if retain == "some" and probes_kept:
            retained = probes_kept[len(probes_kept) // 2]
            if retained.requires_grad:
                retained.retain_grad()
        g = np.array([1.0, 0.5, -2.0])
        fault = ev.get("fault")
        if fault:
            # a sweep aborted at an arbitrary backward function, then the documented recovery (reset the leaf) and a retry on the same
            # graph: the retry must again visit every recorded operation exactly once
            SEAM.arm_bw(fault["kind"], fault["at"])
            try:
                with quiet():
                    cur.backward(SG.Tensor(g.copy()))
            except SimFault:
                st.faults["deep_sweep_" + fault["kind"]] += 1
                st.probes["fault_mid_deep_sweep_then_retry"] += 1
            except RecursionError:
                pass
            SEAM.disarm()
            x.zero_()
        def others():
            # another user differentiates unrelated small graphs between two sweeps over the deep one
            for j in range(ev.get("others_between", 0)):
                o = SG.Tensor(np.array([1.0, 2.0]), requires_grad=True)
                with quiet():
                    ((o * 2.0 + 1.0) * o).sum().backward()
                if not np.array_equal(np.asarray(o.grad.data, dtype=np.float64), np.array([5.0, 9.0])):
                    st.fail("C17.deep_gradient", "a small unrelated graph differentiated between two sweeps over the deep chain got a wrong gradient")
                st.probes["unrelated_sweeps_between_deep_sweeps"] += 1
        if fault:
            others()
        try:
            for sweep in range(sweeps):
                if sweep:
                    others()
                # (a second sweep over the same deep graph crosses the gradients the first one retained)
                self._backward_checked(st, cur, g, len(created), f"chain of {depth} sequential operations (retain={retain}, sweep {sweep + 1} of {sweeps})")
        finally:
            if rctx is not None:
                rctx.__exit__(None, None, None)
        st.probes[f"chain_retain_{retain}"] += 1
        if sweeps == 2:
            st.probes["chain_two_sweeps"] += 1
        with quiet():
            got = x.grad
        want = g * d * sweeps
        if got is None or not np.array_equal(np.asarray(got.data, dtype=np.float64), want):
            st.fail("C17.deep_gradient", f"chain of {depth} ops: leaf gradient {None if got is None else got.data.tolist()}, closed form {want.tolist()}")
        for t in probes_kept:
            if t is cur or t is retained or retain in ("ctx", "every"):
                continue
            with quiet():
                if t.grad is not None:
                    st.fail("C17.interior_release", f"chain of {depth} ops: an interior (non-retained) tensor still holds its gradient after the sweep")
        del created, cur, probes_kept

    def _ev_fanout(self, st, ev):
        SG = st.SG
        n = ev["n"]
        st.sig.append(f"fanout:{n // 2000}:{ev['limit']}")
        x = SG.Tensor(np.array([1.0, 3.0]), requires_grad=True)
        SEAM.bw_created = []
        cs = [((i % 7) - 3) * 0.25 for i in range(n)]
        with quiet():
            ys = [x * c for c in cs]
            z = SG.sg.stack(ys, 0).sum(0)
        created = SEAM.bw_created
        SEAM.bw_created = None
        if n >= 5000: st.probes["fanout_ge_5000"] += 1
        g = np.array([2.0, -1.0])
        self._backward_checked(st, z, g, len(created), f"node with {n} consumers")
        want = g * sum(cs)
        got = np.asarray(x.grad.data, dtype=np.float64)
        if not np.allclose(got, want, rtol=1e-12, atol=1e-9):
            st.fail("C17.deep_gradient", f"fan-out {n}: leaf gradient {got.tolist()}, closed form {want.tolist()}")

    def _ev_ladder(self, st, ev):
        SG = st.SG
        n = ev["n"]
        st.sig.append(f"ladder:{n // 1000}:{ev['limit']}")
        x = SG.Tensor(np.array([1.0, -1.0, 4.0]), requires_grad=True)
        SEAM.bw_created = []
        cur = x
        with quiet():
            for i in range(n):
                cur = cur * 0.5 + cur * 0.5          # a diamond per level: 2^n paths, 3n nodes
        created = SEAM.bw_created
        SEAM.bw_created = None
        if n >= 2000: st.probes["ladder_ge_2000"] += 1
        g = np.array([1.0, 2.0, -0.5])
        self._backward_checked(st, cur, g, len(created), f"ladder of {n} diamonds")
        got = np.asarray(x.grad.data, dtype=np.float64)
        if not np.array_equal(got, g):
            st.fail("C17.deep_gradient", f"ladder of {n} diamonds: leaf gradient {got.tolist()}, closed form {g.tolist()}")

    def _ev_untracked(self, st, ev):
        SG = st.SG
        n = ev["n"]
        mode = ev["mode"]
        st.sig.append(f"untracked:{mode}:{n // 20000}")
        gc.collect()
        base_live = sum(1 for o in gc.get_objects() if isinstance(o, SG.Tensor))
        body = ev.get("body", "scale_add")
        st.probes["untracked_body_" + body] += 1
        pg = (mode == "no_grad")       # parameters require grad only where no_grad makes the loop untracked
        w = SG.Tensor(np.array([0.5, 0.25]), requires_grad=pg)
        b = SG.Tensor(np.array([0.125, -0.25]), requires_grad=pg)
        W = SG.Tensor(np.array([[0.5, 0.0], [0.0, 0.25]]), requires_grad=pg)
        x = SG.Tensor(np.array([1.0, 2.0]))
        wtr = SG.Tensor(np.array([0.25, -0.5]), requires_grad=True)      # (created before the block: a parameter of the tracked side computation)
        sg = SG.sg
        if ev.get("named"):
            # the user labels parameters and the running value (names show up in repr and in drawn graphs)
            for t, nm in ((w, "w"), (b, "b"), (W, "W"), (x, "state"), (wtr, "wtr")):
                t.name = nm
            st.probes["untracked_loop_named_tensors"] += 1

        def footprint(t):
            """bytes held by the attribute values of one tensor object (shallow; its array has a constant shape in these loops)"""
            tot = 0
            for v in list(getattr(t, "__dict__", {}).values()):
                tot += sys.getsizeof(v)
                if isinstance(v, (tuple, list)):
                    tot += sum(sys.getsizeof(u) for u in v if not isinstance(u, SG.Tensor))
            return tot
        foot0 = None

        counter = [1]

        def step(x):
            if body == "new_scalar_each_step":
                # a running mean / decay schedule: the Python scalar operand takes a new value at every step
                counter[0] += 1
                return x * (1.0 - 1.0 / counter[0]) + w * (1.0 / counter[0])
            if body == "scale_add":
                return x * 0.5 + w
            if body == "mul_param_add_param":
                return x * w + b                         # every op on the loop-carried value takes a parameter directly
            if body == "functional":
                return sg.add(sg.mul(x, w), b)
            if body == "linear":
                return sg.linear(x.reshape((1, 2)), W, b).reshape((2,))
            if body == "views":
                return (x.reshape((2, 1)).transpose(0, 1).reshape((2,)) * w) + b
            u = sg.unbind(sg.stack([x * w, b], 0), 0)
            return u[0] + u[1]
        refs = []
        checked = 0
        ctx = SG.sg.no_grad() if mode == "no_grad" else None
        st.probes["untracked_no_grad_loop" if mode == "no_grad" else "untracked_nograd_operands_loop"] += 1
        rctx = SG.sg.retain_grads() if ev.get("retain_ctx") else None
        if rctx is not None:
            rctx.__enter__()          # a debugging session wrapped around the whole program
            st.probes["untracked_loop_inside_retain_grads"] += 1
        if ctx is not None:
            ctx.__enter__()
        nee = ev.get("nested_exc_every", 0)
        fte = ev.get("fold_tracked_every", 0) if mode == "no_grad" else 0
        rse = ev.get("reenter_same_every", 0) if mode == "no_grad" else 0
        qrefs = []
        caught = []
        try:
            with quiet():
                for i in range(n):
                    if nee and i % nee == 5:
                        # a helper with its own no_grad block fails; the caller catches the error and carries on
                        try:
                            with SG.sg.no_grad():
                                with SG.sg.no_grad():
                                    SG.sg.linear(x.reshape((1, 2)), SG.Tensor(np.ones((3, 5))), None)
                        except Exception as e:
                            caught.append(e)
                            del caught[:-2]
                        st.probes["nested_no_grad_left_by_exception_in_loop"] += 1
                    if rse and i % rse == 3:
                        # a helper shares the caller's no_grad object and enters it again inside the block (normal exit)
                        with ctx:
                            with ctx:
                                x = step(x)
                        st.probes["same_no_grad_object_reentered_in_loop"] += 1
                    if fte and i % fte == 2:
                        # a TRACKED non-leaf computed outside the block (a loss, an activation) is folded into the loop-carried value
                        ctx.__exit__(None, None, None)
                        q = (wtr * 1.5) + 0.5
                        ctx.__enter__()
                        if not q.requires_grad:
                            st.fail("C17.untracked_keeps_history", f"step {i}: a result computed OUTSIDE the no_grad block from a parameter does not require grad")
                        x = x * 0.5 + q * 0.125
                        if len(qrefs) < 400 or i % 1000 < fte:
                            qrefs.append((i, weakref.ref(q)))
                        del q
                        st.probes["tracked_value_folded_into_untracked_loop"] += 1
                    x = step(x)
                    if x.requires_grad:
                        st.fail("C17.untracked_keeps_history", f"step {i}: a result computed while gradients are not tracked requires grad")
                    if i % 1000 == 0:
                        refs.append((i, weakref.ref(x)))
                    if i == 50:
                        foot0 = footprint(x)
                    elif i % 500 == 60 and foot0 is not None and footprint(x) > foot0 + 2048:
                        st.fail("C17.untracked_keeps_history", f"the loop-carried result of untracked step {i} holds {footprint(x)} bytes in its attributes, the one of "
                                f"step 50 held {foot0}: an untracked result carries something that grows with the history ({mode}, body {body})", step=i)
                    if i % 1000 == 7 and len(refs) >= 2:
                        gc.collect()
                        j, r = refs[-2]
                        checked += 1
                        if r() is not None:
                            st.fail("C17.untracked_keeps_history", f"the result of untracked step {j} is still alive at step {i} (after gc.collect()): "
                                    f"untracked results keep their operands ({mode})", step=j)
                    if ev["tracked_every"] and i % ev["tracked_every"] == 11:
                        if ctx is not None:
                            ctx.__exit__(None, None, None)
                        p = SG.Tensor(np.array([1.0, 1.0]), requires_grad=True)
                        (p * x).sum().backward()
                        st.probes["untracked_interleaved_with_tracked"] += 1
                        del p
                        if ctx is not None:
                            ctx.__enter__()
        finally:
            if ctx is not None:
                ctx.__exit__(None, None, None)
            if rctx is not None:
                rctx.__exit__(None, None, None)
        del caught
        gc.collect()
        alive = [j for j, r in qrefs[:-2] if r() is not None]
        if alive:
            st.fail("C17.untracked_keeps_history", f"{len(alive)} of {len(qrefs) - 2} tracked values that were folded into an untracked running value are still alive "
                    f"after the loop (first: step {alive[0]}): the untracked results keep the graphs of past steps", alive=len(alive))
        live = sum(1 for o in gc.get_objects() if isinstance(o, SG.Tensor))
        if live - base_live > 40:
            st.fail("C17.untracked_keeps_history", f"after an untracked loop of {n} updates {live - base_live} more Tensor objects are alive than before it "
                    "(bounded memory requires a constant)", live=live - base_live)
        st.obs("untracked", n, checked)

    def _ev_detached(self, st, ev):
        """a long-running loop whose state is handed from step to step through detach(): truncated back-propagation through time
        (h = h_new.detach()) or logging (log.append(loss.detach())).  Every step differentiates a graph of constant size, and nothing of
        a finished step may stay alive."""
        SG = st.SG
        n, pattern = ev["n"], ev["pattern"]
        st.sig.append(f"detached:{pattern}:{n // 1000}")
        st.probes["detached_loop_" + pattern] += 1
        w = SG.Tensor(np.array([0.5, 0.25]), requires_grad=True)
        h = SG.Tensor(np.array([1.0, 2.0]))
        log = []
        refs = []
        counts = []
        gc.collect()
        base_live = sum(1 for o in gc.get_objects() if isinstance(o, SG.Tensor))
        with quiet():
            for i in range(n):
                hn = (h * w + 0.125) * 0.5
                loss = (hn * hn).sum()
                w.zero_()
                SEAM.bw_calls = []
                loss.backward()
                counts.append(len(SEAM.bw_calls))
                SEAM.bw_calls = None
                if i % 100 == 0:
                    refs.append((i, weakref.ref(hn)))
                if pattern == "bptt":
                    h = hn.detach()
                elif pattern == "log":
                    log.append(loss.detach())
                    if len(log) > 50:
                        del log[:25]            # a bounded log: old entries are dropped by the user
                    h = SG.Tensor(hn.data.copy())
                else:
                    h = SG.Tensor(hn.detach().numpy().copy())
                del hn, loss
        gc.collect()
        if len(set(counts)) != 1:
            st.fail("C17.linear_cost", f"detach() hand-off ({pattern}): the number of backward functions run per step grows from {counts[0]} (step 0) to "
                    f"{counts[-1]} (step {n - 1}): detached tensors keep the graph of earlier steps reachable")
        alive = [i for i, r in refs[:-2] if r() is not None]
        if alive:
            st.fail("C17.untracked_keeps_history", f"detach() hand-off ({pattern}): intermediate results of steps {alive[:5]} are still alive at the end of a loop of {n} steps")
        live = sum(1 for o in gc.get_objects() if isinstance(o, SG.Tensor))
        if live - base_live > 120:
            st.fail("C17.untracked_keeps_history", f"detach() hand-off ({pattern}): {live - base_live} more Tensor objects alive after the loop than before it")

    # ------------------------------------------------------------------ work scaling
    def _measure(self, st, n, shape):
        SG = st.SG
        Tn = SG.Tensor
        x = Tn(np.array([1.0, 2.0]), requires_grad=True)
        cur = x
        with quiet():
            if shape == "fanin":
                # one operation with n operands (stack of n distinct tensors), each a leaf of its own
                leaves = [Tn(np.array([1.0, 2.0]), requires_grad=True) for _ in range(n)]
                cur = SG.sg.stack(leaves, 0).sum(0) * 0.0 + x
            elif shape == "fanout":
                # one tensor with n consumers
                cur = SG.sg.stack([x * 1.0 for _ in range(n)], 0).sum(0)
            else:
                for i in range(n):
                    cur = (cur * 0.5 + cur * 0.5) if shape == "ladder" else (cur * 2.0 if i % 2 else cur * 0.5)
        counts = {"line": 0, "eqhash": 0}
        fname = SG.T.__file__

        def tracer(frame, event, arg):
            if frame.f_code.co_filename != fname:
                return None
            return local

        def local(frame, event, arg):
            if event == "line":
                counts["line"] += 1
            return local
        had_eq, had_hash = Tn.__dict__.get("__eq__"), Tn.__dict__.get("__hash__")

        def c_eq(a, b):
            counts["eqhash"] += 1
            return a is b

        def c_hash(a):
            counts["eqhash"] += 1
            return object.__hash__(a)
        Tn.__eq__, Tn.__hash__ = c_eq, c_hash
        old = sys.gettrace()
        sys.settrace(tracer)
        err = None
        try:
            with quiet():
                cur.backward(Tn(np.ones(2)))
        except RecursionError:
            raise
        except Exception as e:
            err = e
        finally:
            sys.settrace(old)
            for name, had in (("__eq__", had_eq), ("__hash__", had_hash)):
                if had is None:
                    delattr(Tn, name)
                else:
                    setattr(Tn, name, had)
        if err is not None:
            st.fail("C17.deep_backward", f"backward on a {shape} of {n} nodes raised {type(err).__name__}: {err}")
        want = np.ones(2) * (n if shape == "fanout" else 1)
        if not np.array_equal(np.asarray(x.grad.data, dtype=np.float64), want):
            st.fail("C17.deep_gradient", f"{shape} of {n} nodes: leaf gradient {x.grad.data.tolist()}, closed form {want.tolist()}")
        return counts["line"] + counts["eqhash"], counts

    def _ev_work(self, st, ev):
        n = ev["n"]
        st.sig.append(f"work:{ev['shape']}:{n}")
        sys.setrecursionlimit(100000)      # the measurement is about cost, not depth
        try:
            w1, c1 = self._measure(st, n, ev["shape"])
            w4, c4 = self._measure(st, 4 * n, ev["shape"])
        except RecursionError:
            st.notes["work_measure_recursion"] += 1
            return
        finally:
            sys.setrecursionlimit(1000)
        st.probes["work_scaling_measured"] += 1
        st.obs("work", n, w1, w4)
        if w1 <= 0 or w4 > 4.5 * w1:
            st.fail("C17.linear_cost", f"{ev['shape']} of {n} vs {4 * n} nodes: deterministic work counter {w1} -> {w4} (x{w4 / max(w1, 1):.2f} for 4x the nodes; "
                    f"line events {c1['line']} -> {c4['line']}, Tensor eq/hash calls {c1['eqhash']} -> {c4['eqhash']})")
