"""optsim - C08: optimizers follow the published SGD/Adam/AdamW rules on any history.

World: 1-4 parameters (0-d ... 2-d, float32/float64, some frozen, some given to no
optimizer), 1-2 optimizers (two optimizers = two actors over disjoint or overlapping
parameter sets), hyper-parameters from a swarm.  Gradients come from REAL backward
calls of small random losses, so accumulation runs through the library's own += path.
Events: backward (several per step), zero_grad via three APIs, step, in any order,
plus constructor calls that must be refused (F1) and kernel faults inside a backward
(F2) followed by the documented recovery.

Oracle (OptModel, float64, transcribed from the PyTorch documentation the repo cites):
step-by-step refinement.  Immediately before each step the model reads the parameter
values and the gradient the system accumulated; it keeps its OWN momentum/moment state
from step to step, so state the system lets later events corrupt makes the
trajectories part.  Admitted rule variants (one consistently per trajectory): SGD with
maximize AND weight decay (documentation pseudo-code vs. torch>=1.13 code); Adam/AdamW
bias correction by global vs. per-parameter step count.

Not asserted: identity of p.data arrays, layout of optimizer state, Optimizer.t.
"""
import math

import numpy as np

from simkit.core import RunState, Sim, enc, dec, small_values
from simkit.world import World, SEAM, SimFault, quiet


class Variant:
    def __init__(self, name, n):
        self.name = name
        self.buf = [None] * n      # SGD momentum buffers
        self.m = [None] * n
        self.v = [None] * n
        self.k = [0] * n           # per-parameter step counts
        self.alive = True


class OptModel:
    def __init__(self, kind, hp, n):
        self.kind, self.hp, self.n = kind, hp, n
        self.t = 0
        if kind == "SGD":
            names = ["doc_order", "code_order"] if (hp["maximize"] and hp["weight_decay"] != 0) else ["doc_order"]
        else:
            names = ["global_t", "per_param_t"]
        self.variants = [Variant(nm, n) for nm in names]

    def predict(self, var, i, theta, g, commit):
        """new value of parameter i under variant var (float64); commit=True updates var's state"""
        hp = self.hp
        lr = hp["lr"]
        if self.kind == "SGD":
            mu, tau, lam = hp["momentum"], hp["dampening"], hp["weight_decay"]
            gg = g.copy()
            if var.name == "code_order" and hp["maximize"]:
                gg = -gg
            if lam != 0:
                gg = gg + lam * theta
            buf = var.buf[i]
            if mu != 0:
                if buf is None:
                    buf = gg.copy()
                else:
                    buf = mu * buf + (1 - tau) * gg
                gg = gg + mu * buf if hp["nesterov"] else buf
            if commit:
                var.buf[i] = buf
            if hp["maximize"] and var.name == "doc_order":
                return theta + lr * gg
            return theta - lr * gg
        b1, b2 = hp["betas"]
        eps, lam = hp["eps"], hp["weight_decay"]
        gg = -g if hp["maximize"] else g.copy()
        th = theta
        if self.kind == "AdamW":
            th = th - lr * lam * th
        elif lam != 0:
            gg = gg + lam * th
        m = (1 - b1) * gg if var.m[i] is None else b1 * var.m[i] + (1 - b1) * gg
        v = (1 - b2) * gg * gg if var.v[i] is None else b2 * var.v[i] + (1 - b2) * gg * gg
        k = var.k[i] + 1
        t = self.t if var.name == "global_t" else k
        mh = m / (1 - b1 ** t)
        vh = v / (1 - b2 ** t)
        if commit:
            var.m[i], var.v[i], var.k[i] = m, v, k
        return th - lr * mh / (np.sqrt(vh) + eps)


class OptSim(Sim):
    PROP = "C08"
    NAME = "optsim"
    QUICK_RUNS = 40000
    THOROUGH_RUNS = 500000
    MAX_EVENTS = 40
    PROBES = ["step_before_any_backward", "two_backwards_per_step", "step_without_zero_grad", "frozen_param_with_weight_decay",
              "param_outside_optimizer", "nesterov", "dampening", "maximize", "zero_d_param", "f32_param", "two_optimizers_overlap",
              "illegal_hyperparams_refused", "param_without_grad_skipped", "backward_fault_then_recovery",
              "variant_pruned", "momentum_plain", "adam", "adamw", "sgd", "optimizer_recreated", "requires_grad_toggled_mid_run",
              "tied_parameters_share_storage", "tied_parameters_both_updated",
              "interrupted_backward_retried_on_same_graph", "accumulated_gradient_checked", "numpy_scalar_hyperparameters",
              "parameter_data_rebound_by_initialiser_after_optimizer_was_built", "more_than_128_parameter_tensors"]
    RULE = ("one run = parameters + 1-2 optimizers with swarm hyper-parameters and a seeded interleaving of backward/zero_grad/step events; "
            "distinct = optimizer kinds x non-default hyper-parameter set x event-kind sequence; non-trivial = at least two steps compared")
    ASSUMPTIONS = ["the gradient fed to the model at each step is the one the system accumulated (C04 decides accumulation)",
                   "float32 trajectories are compared step by step with the parameter re-read before every step (no drift)"]

    def knobs(self, rng, tier):
        many = rng.random() < 0.008          # rarely a model with 130-170 (tiny) parameter tensors: per-parameter state pools and caches
        return {"max_events": rng.randint(6, 40) + (170 if many else 0), "n_params": rng.randint(130, 170) if many else rng.randint(1, 4), "two_opts": rng.random() < 0.35,
                "faulty": rng.random() < 0.25, "p_step": rng.choice([0.25, 0.4]), "p_zero": rng.choice([0.05, 0.2, 0.35])}

    # ------------------------------------------------------------------ state
    def start(self, knobs):
        st = RunState(knobs)
        st.world = World()
        st.SG = st.world.SG
        st.P = {}              # id -> Tensor
        st.pmeta = {}
        st.opts = {}           # oid -> dict(obj, ids, model, unknown)
        st.module = None
        st.module_ids = []
        st.n_steps = 0
        st.unknown_grad = set()   # params whose gradient is unknown after an aborted backward (until reset)
        st.since_zero = {}        # param -> number of backward calls since last reset
        st.stepped_since_zero = {}
        st.setup = 0
        st.root = {}              # tied parameter id -> (id of the parameter whose storage it views, how)
        st.ledger = {}            # param -> analytic sum of the gradients of the backward calls since its last reset (None = none yet)
        st.ledger_abs = {}
        st.ledger_unknown = set() # flag toggles make it unclear which reset reached the parameter: unknown until a Tensor.zero_()
        st.retry = None           # the graph of a backward that was aborted by a fault (for the retry on the SAME graph)
        st.pending = []
        return st

    # ------------------------------------------------------------------ generation
    def _gen_hp(self, rng, kind):
        hp = self._gen_hp0(rng, kind)
        if rng.random() < 0.2:
            hp["np_scalars"] = rng.choice(["f8", "f8", "f4"])
        return hp

    def _gen_hp0(self, rng, kind):
        lr = round(10 ** rng.uniform(-3, -0.5), 6)
        if kind == "SGD":
            mu = rng.choice([0, 0, 0.5, 0.9])
            nest = mu > 0 and rng.random() < 0.4
            tau = 0 if nest else rng.choice([0, 0, 0.3])
            return {"lr": lr, "momentum": mu, "dampening": tau, "nesterov": nest, "weight_decay": rng.choice([0, 0, 0.01, 0.1]),
                    "maximize": rng.random() < 0.3}
        return {"lr": lr, "betas": rng.choice([[0.9, 0.999], [0.5, 0.9], [0.0, 0.5], [0.8, 0.8]]), "eps": rng.choice([1e-8, 1e-8, 1e-3, 0.1]),
                "weight_decay": rng.choice([0, 0, 0.01, 0.1]), "maximize": rng.random() < 0.3}

    def gen(self, rng, st):
        kn = st.knobs
        if st.pending:
            return st.pending.pop(0)
        if any(not np.isfinite(t.data).all() or np.abs(t.data).max() > 1e3 for t in st.P.values() if t.data.size):
            return None            # diverged (e.g. maximize on a cubic loss): end the run before values overflow
        if len(st.P) < kn["n_params"]:
            shape = rng.choice([(), (1,), (3,), (2, 3), (2, 2)]) if rng.random() < 0.998 else (rng.choice([257, 300]), 256)     # rarely a LARGE one (size-dependent paths)
            dt = np.float32 if rng.random() < 0.35 else np.float64
            cands = [i for i in sorted(st.P) if st.P[i].data.ndim >= 1 and st.P[i].data.size <= 64 and i not in st.root]
            if cands and rng.random() < 0.12:
                # tied weights: a second parameter whose storage is a view of an earlier one (decoder weight = encoder weight transposed)
                of = rng.choice(cands)
                hows = [h for (r, h) in st.root.values() if r == of]
                return {"k": "param_tied", "id": len(st.P), "of": of, "how": hows[0] if hows else rng.choice(["T", "same", "rev"]), "rg": rng.random() < 0.9}
            return {"k": "param", "id": len(st.P), "data": enc(small_values(rng, shape, dt, -2, 2, avoid_zero=True)),
                    "rg": rng.random() < 0.8, "wrap": rng.random() < 0.5}
        n_opts = 2 if kn["two_opts"] else 1
        if len(st.opts) + st.setup < n_opts:
            st.setup += 0
            ids = sorted(st.P)
            if rng.random() < 0.12:
                # F1: must be refused
                bad = rng.choice(["nesterov_no_momentum", "nesterov_dampening", "empty"])
                return {"k": "opt_bad", "how": bad, "params": ids}
            k = rng.randint(1, len(ids))
            kind = rng.choice(["SGD", "SGD", "Adam", "AdamW"])
            if kn["n_params"] > 100:
                kind = rng.choice(["Adam", "Adam", "AdamW", "SGD"])
                k = len(ids)
            hp = self._gen_hp(rng, kind)
            if st.root:
                # with tied storage and weight decay the result depends on the ORDER in which the entries of the list are updated
                # (lr^2 terms), which the cited rules do not fix: tied runs use weight_decay = 0, where the updates are additive
                hp["weight_decay"] = 0
            return {"k": "opt_new", "oid": len(st.opts), "kind": kind, "params": sorted(rng.sample(ids, k)), "hp": hp}
        if st.module is None and rng.random() < 0.3:
            ids = [i for i in st.P if st.pmeta[i]["wrap"]]
            if ids:
                return {"k": "module", "params": ids}
        r = rng.random()
        oids = sorted(st.opts)
        if rng.random() < 0.05 and st.P:
            i = rng.choice(sorted(st.P))
            return {"k": "set_rg", "p": i, "v": not st.P[i].requires_grad}
        if rng.random() < 0.03 and st.P:
            # a documented call re-binds a parameter's data AFTER the optimizer was built (model.apply(init_weights) after creating the
            # optimizer): the optimizer must keep following the tensor the model holds
            cands = [i for i in sorted(st.P) if i not in st.root and not any(r == i for (r, h) in st.root.values()) and st.P[i].data.ndim >= 1]
            if cands:
                return {"k": "init_rebind", "p": rng.choice(cands), "fn": rng.choice(["uniform_", "normal_", "ones_", "constant_"]), "seed": rng.randrange(10 ** 6)}
        if rng.random() < 0.04 and oids:
            # the optimizer object is thrown away and built again over the same parameters (checkpoint reload, lr schedule by re-creation):
            # the new instance starts from empty state
            return {"k": "opt_recreate", "oid": rng.choice(oids)}
        if r < kn["p_step"]:
            return {"k": "step", "oid": rng.choice(oids)}
        if r < kn["p_step"] + kn["p_zero"]:
            vias = ["optimizer", "tensor"] + (["module"] if st.module is not None else [])
            via = rng.choice(vias)
            if via == "optimizer":
                return {"k": "zero", "via": "optimizer", "oid": rng.choice(oids)}
            if via == "tensor":
                ids = sorted(st.P)
                return {"k": "zero", "via": "tensor", "ids": sorted(rng.sample(ids, rng.randint(1, len(ids))))}
            return {"k": "zero", "via": "module"}
        # backward of a random loss over a subset of the parameters
        ids = sorted(st.P)
        sub = sorted(rng.sample(ids, rng.randint(1, len(ids))))
        terms = []
        for i in sub:
            shape = st.P[i].data.shape
            terms.append({"p": i, "form": rng.choice(["lin", "sq", "cube"]), "c": enc(small_values(rng, shape, np.float64, -2, 2))})
        ev = {"k": "backward", "terms": terms, "style": rng.choice(["sum", "sum", "g"])}
        if ev["style"] == "g":
            ev["terms"] = terms[:1]
            ev["g"] = enc(small_values(rng, st.P[terms[0]["p"]].data.shape, np.float64, -2, 2))
        if kn["faulty"] and rng.random() < 0.2:
            ev["fault"] = {"kind": rng.choice(["alloc", "interrupt", "exit"]), "at": rng.randint(1, 6)}
            if rng.random() < 0.4:
                ev["fault"].update(seam="line", at=rng.randint(1, 400))
            if rng.random() < 0.6:
                # the documented recovery: reset the gradients, then backward again on the SAME graph (no new forward pass)
                st.pending = [{"k": "zero", "via": "tensor", "ids": [t["p"] for t in ev["terms"]]}, {"k": "backward_retry"}]
        return ev

    # ------------------------------------------------------------------ events
    def apply(self, st, ev):
        st.sig.append(ev["k"] + (":" + ev.get("via", "") if ev["k"] == "zero" else ""))
        getattr(self, "_ev_" + ev["k"])(st, ev)

    def _ev_param(self, st, ev):
        SG = st.SG
        t = SG.Tensor(dec(ev["data"]), requires_grad=ev["rg"])
        if ev["wrap"]:
            t = SG.nn.Parameter(t)
        st.P[ev["id"]] = t
        st.pmeta[ev["id"]] = {"rg": bool(ev["rg"]), "wrap": bool(ev["wrap"])}
        st.since_zero[ev["id"]] = 0
        st.stepped_since_zero[ev["id"]] = False
        st.ledger[ev["id"]] = None
        st.ledger_abs[ev["id"]] = 0.0
        if t.data.ndim == 0:
            st.probes["zero_d_param"] += 1
        if t.data.dtype == np.float32:
            st.probes["f32_param"] += 1

    def _ev_param_tied(self, st, ev):
        SG = st.SG
        src = st.P.get(ev["of"])
        if src is None or src.data.ndim < 1 or ev["of"] in st.root:
            st.skipped += 1
            return
        hows = [h for (r, h) in st.root.values() if r == ev["of"]]
        how = hows[0] if hows else ev["how"]            # (all views of one storage use the same transform: keeps regrouping simple)
        view = self._view(src.data, how)
        t = SG.Tensor(view, requires_grad=ev["rg"])
        if not np.shares_memory(t.data, src.data):
            st.notes["tensor_constructor_copied_the_view"] += 1
        else:
            st.root[ev["id"]] = (ev["of"], how)
            st.probes["tied_parameters_share_storage"] += 1
        st.P[ev["id"]] = t
        st.pmeta[ev["id"]] = {"rg": bool(ev["rg"]), "wrap": False}
        st.since_zero[ev["id"]] = 0
        st.stepped_since_zero[ev["id"]] = False
        st.ledger[ev["id"]] = None
        st.ledger_abs[ev["id"]] = 0.0

    def _regroup(self, st):
        """re-derive the tie groups from what the arrays actually share NOW (an optimizer that re-binds p.data takes that parameter out
        of its group; the others may still share the old storage among themselves)"""
        roots = sorted({r for (r, h) in st.root.values()})
        for r in roots:
            members = [i for i, (rr, h) in st.root.items() if rr == r]
            how = st.root[members[0]][1]
            parts = []
            for i in [r] + members:
                for part in parts:
                    if np.shares_memory(st.P[i].data, st.P[part[0]].data):
                        part.append(i)
                        break
                else:
                    parts.append([i])
            for i in members:
                del st.root[i]
            for part in parts:
                if len(part) < 2:
                    continue
                if r in part:
                    for i in part:
                        if i != r:
                            st.root[i] = (r, how)
                else:
                    for i in part[1:]:
                        st.root[i] = (part[0], "same")     # both were the same view of the old storage
            if any(len(part) < 2 or r not in part for part in parts[1:]) or len(parts) > 1:
                st.probes["tie_dissolved_by_rebinding"] += 1

    @staticmethod
    def _view(a, how):
        return a.T if how == "T" else a[::-1] if how == "rev" else a[...]

    def _group(self, st, i):
        r = st.root.get(i, (i, None))[0]
        return [j for j in st.P if j == r or st.root.get(j, (None,))[0] == r]

    def _ev_module(self, st, ev):
        SG = st.SG
        ids = [i for i in ev["params"] if i in st.P and isinstance(st.P[i], SG.nn.Parameter)]
        if not ids:
            st.skipped += 1
            return

        class Holder(SG.nn.Module):
            def __init__(self):
                super().__init__()
        m = Holder()
        for n, i in enumerate(ids):
            setattr(m, f"p{n}", st.P[i])
        st.module, st.module_ids = m, ids

    @staticmethod
    def _effective(hp):
        """the hyper-parameter values the optimizer actually received (a float32 scalar is not the decimal number it was made from)"""
        if hp.get("np_scalars") != "f4":
            return hp
        r = lambda v: float(np.float32(v))
        return {k: ([r(x) for x in v] if isinstance(v, list) else (r(v) if isinstance(v, (int, float)) and not isinstance(v, bool) else v)) for k, v in hp.items()}

    def _make(self, st, kind, params, hp):
        cls = getattr(st.SG.optim, kind)
        if hp.get("np_scalars"):
            # hyper-parameters that come out of np.logspace / a config array are NumPy scalars, not Python floats
            st.probes["numpy_scalar_hyperparameters"] += 1
            w = np.float64 if hp["np_scalars"] == "f8" else np.float32
            hp = {k: ([w(x) for x in v] if isinstance(v, list) else (w(v) if isinstance(v, float) or (isinstance(v, int) and not isinstance(v, bool) and k != "nesterov") else v))
                  for k, v in hp.items() if k != "np_scalars"}
        if kind == "SGD":
            return cls(params, lr=hp["lr"], momentum=hp["momentum"], dampening=hp["dampening"], weight_decay=hp["weight_decay"],
                       nesterov=hp["nesterov"], maximize=hp["maximize"])
        return cls(params, lr=hp["lr"], betas=tuple(hp["betas"]), eps=hp["eps"], weight_decay=hp["weight_decay"], maximize=hp["maximize"])

    def _ev_opt_bad(self, st, ev):
        SG = st.SG
        ps = [st.P[i] for i in ev["params"] if i in st.P]
        try:
            if ev["how"] == "empty":
                SG.optim.SGD([], lr=0.1)
            elif ev["how"] == "nesterov_no_momentum":
                SG.optim.SGD(ps, lr=0.1, momentum=0, nesterov=True)
            else:
                SG.optim.SGD(ps, lr=0.1, momentum=0.9, dampening=0.5, nesterov=True)
        except Exception:
            st.probes["illegal_hyperparams_refused"] += 1
            return
        st.fail("C08.illegal_hyperparameters_accepted", f"constructor accepted an illegal configuration ({ev['how']})")

    def _ev_opt_new(self, st, ev):
        ids = [i for i in ev["params"] if i in st.P]
        if not ids:
            st.skipped += 1
            return
        hp = ev["hp"]
        obj = st.must("C08.constructor_raises", f"{ev['kind']}({hp})", self._make, st, ev["kind"], [st.P[i] for i in ids], hp)
        hp = self._effective(hp)
        st.opts[ev["oid"]] = {"obj": obj, "ids": ids, "model": OptModel(ev["kind"], hp, len(ids)), "kind": ev["kind"], "hp": hp, "steps": 0}
        if len(ids) > 128:
            st.probes["more_than_128_parameter_tensors"] += 1
        st.probes[ev["kind"].lower()] += 1
        if ev["kind"] == "SGD":
            if hp["nesterov"]: st.probes["nesterov"] += 1
            if hp["dampening"]: st.probes["dampening"] += 1
            if hp["momentum"] and not hp["nesterov"]: st.probes["momentum_plain"] += 1
        if hp["maximize"]: st.probes["maximize"] += 1
        others = [o for k, o in st.opts.items() if k != ev["oid"]]
        if any(set(o["ids"]) & set(ids) for o in others):
            st.probes["two_optimizers_overlap"] += 1
        if any(i not in ids for i in st.P):
            st.probes["param_outside_optimizer"] += 1

    def _ev_set_rg(self, st, ev):
        p = st.P.get(ev["p"])
        if p is None:
            st.skipped += 1
            return
        st.must("C08.flag_setter_raises", f"requires_grad = {ev['v']} on a float leaf", setattr, p, "requires_grad", ev["v"])
        st.probes["requires_grad_toggled_mid_run"] += 1
        st.ledger_unknown.add(ev["p"])

    def _ev_init_rebind(self, st, ev):
        p = st.P.get(ev["p"])
        if p is None:
            st.skipped += 1
            return
        init = st.SG.init
        saved = np.random.get_state()
        np.random.seed(ev["seed"])
        try:
            with quiet():
                getattr(init, ev["fn"])(p, 0.25) if ev["fn"] == "constant_" else getattr(init, ev["fn"])(p)
        except Exception as e:
            st.fail("C08.harness_init", f"{ev['fn']} on a parameter raised {type(e).__name__}: {e}")
        finally:
            np.random.set_state(saved)
        st.probes["parameter_data_rebound_by_initialiser_after_optimizer_was_built"] += 1

    def _ev_opt_recreate(self, st, ev):
        o = st.opts.get(ev["oid"])
        if o is None:
            st.skipped += 1
            return
        obj = st.must("C08.constructor_raises", f"{o['kind']}({o['hp']})", self._make, st, o["kind"], [st.P[i] for i in o["ids"]], o["hp"])
        st.opts[ev["oid"]] = {"obj": obj, "ids": o["ids"], "model": OptModel(o["kind"], o["hp"], len(o["ids"])), "kind": o["kind"], "hp": o["hp"], "steps": 0}
        st.probes["optimizer_recreated"] += 1

    def _ev_zero(self, st, ev):
        via = ev["via"]
        if via == "optimizer":
            o = st.opts.get(ev["oid"])
            if o is None:
                st.skipped += 1
                return
            st.must("C08.zero_grad_raises", "Optimizer.zero_grad()", o["obj"].zero_grad)
            ids = o["ids"]
        elif via == "tensor":
            ids = [i for i in ev["ids"] if i in st.P]
            for i in ids:
                st.must("C08.zero_grad_raises", "Tensor.zero_()", st.P[i].zero_)
        else:
            if st.module is None:
                st.skipped += 1
                return
            st.must("C08.zero_grad_raises", "Module.zero_grad()", st.module.zero_grad)
            ids = [i for i in st.module_ids if st.P[i].requires_grad]
        for i in ids:
            st.unknown_grad.discard(i)
            st.since_zero[i] = 0
            st.stepped_since_zero[i] = False
            st.ledger[i] = None
            st.ledger_abs[i] = 0.0
            if via == "tensor":
                st.ledger_unknown.discard(i)

    def _ev_backward(self, st, ev):
        SG = st.SG
        terms = [t for t in ev["terms"] if t["p"] in st.P]
        if not terms:
            st.skipped += 1
            return
        fault = ev.get("fault")
        touched = [t["p"] for t in terms]
        # analytic gradients of the polynomial loss (what this call contributes to each parameter)
        contrib = {}
        for t in (terms[:1] if ev["style"] == "g" else terms):
            p = st.P[t["p"]]
            if not p.requires_grad:
                continue
            x = np.asarray(p.data, dtype=np.float64)
            c = np.asarray(dec(t["c"]).astype(p.data.dtype), dtype=np.float64)
            d = c if t["form"] == "lin" else 2 * x * c if t["form"] == "sq" else 3 * x * x * c
            if ev["style"] == "g":
                d = d * np.asarray(dec(ev["g"]).astype(p.data.dtype), dtype=np.float64).reshape(d.shape)
            contrib[t["p"]] = d
        st.retry = None
        total = gt = None
        try:
            with quiet():
                total = None
                for t in terms:
                    p = st.P[t["p"]]
                    c = SG.Tensor(dec(t["c"]).astype(p.data.dtype))
                    e = p * c if t["form"] == "lin" else p * p * c if t["form"] == "sq" else p * p * p * c
                    if ev["style"] == "g":
                        total = e
                        break
                    s = e.sum()
                    total = s if total is None else total + s
                if not total.requires_grad:
                    return
                gt = SG.Tensor(dec(ev["g"]).astype(total.data.dtype).reshape(total.data.shape)) if ev["style"] == "g" else None
                with SEAM.armed(fault):
                    total.backward(gt) if gt is not None else total.backward()
        except SimFault:
            SEAM.disarm()
            st.faults[f"backward_{fault.get('seam', 'kernel')}_{fault['kind']}"] += 1
            st.unknown_grad.update(touched)
            st.probes["backward_fault_then_recovery"] += 1
            st.retry = (total, gt, touched, contrib)
            return
        except Exception as e:
            SEAM.disarm()
            st.fail("C08.backward_raises", f"backward of a polynomial loss over the parameters raised {type(e).__name__}: {e}")
        SEAM.disarm()
        self._count(st, touched, contrib)

    def _count(self, st, touched, contrib):
        for i in touched:
            if st.P[i].requires_grad:
                st.since_zero[i] += 1
                if st.since_zero[i] >= 2:
                    st.probes["two_backwards_per_step"] += 1
        for i, d in contrib.items():
            st.ledger[i] = d.copy() if st.ledger[i] is None else st.ledger[i] + d
            st.ledger_abs[i] += float(np.abs(d).max()) if d.size else 0.0

    def _ev_backward_retry(self, st, ev):
        if st.retry is None:
            st.skipped += 1
            return
        total, gt, touched, contrib = st.retry
        st.retry = None
        try:
            with quiet():
                total.backward(gt) if gt is not None else total.backward()
        except Exception as e:
            st.fail("C08.backward_raises", f"backward on the graph of an earlier, interrupted backward raised {type(e).__name__}: {e}")
        st.probes["interrupted_backward_retried_on_same_graph"] += 1
        self._count(st, touched, contrib)

    def _ev_step(self, st, ev):
        o = st.opts.get(ev["oid"])
        if o is None:
            st.skipped += 1
            return
        model = o["model"]
        ids = o["ids"]
        self._regroup(st)
        pre, grads = {}, {}
        for i in ids:
            p = st.P[i]
            pre[i] = np.array(p.data, dtype=np.float64, copy=True)
            with quiet():
                g = p.grad
            grads[i] = None if g is None else np.array(g.data, dtype=np.float64, copy=True)
        pre_root = {}
        for i in ids:
            r = st.root.get(i, (i, None))[0]
            if r not in pre_root:
                pre_root[r] = np.array(st.P[r].data, dtype=np.float64, copy=True)
        outside = {i: (st.P[i].data.tobytes(), st.P[i].data.dtype, st.P[i].data.shape) for i in st.P if i not in ids}
        frozen = {i: st.P[i].data.tobytes() for i in ids if not st.P[i].requires_grad}
        meta = {i: (st.P[i].data.dtype, st.P[i].data.shape) for i in ids}
        finite = all(np.isfinite(pre[i]).all() and (grads[i] is None or (np.isfinite(grads[i]).all() and np.abs(grads[i]).max() < 1e12)) for i in ids)
        if not finite:
            st.notes["nonfinite_step_not_judged"] += 1
        if not finite or any(i in st.unknown_grad for i in ids):
            # gradient state unknown after an aborted backward: only isolation is checked for this step
            judge = False
        else:
            judge = True
        if judge:
            for i in ids:
                p = st.P[i]
                if not p.requires_grad or i in st.ledger_unknown or i in st.unknown_grad:
                    continue
                want = st.ledger[i]
                got = grads[i]
                if want is None:
                    if got is not None and np.any(got):
                        st.fail("C08.gradient_seen_by_step", f"parameter {i} holds a non-zero gradient although no backward reached it since its last reset", param=i)
                    continue
                # (0-d intermediates are single precision on this tree whatever the operand dtype: a dtype matter, C10, not decided here)
                tol = (3e-5 if (p.data.dtype == np.float32 or p.data.ndim == 0) else 1e-11) * (st.ledger_abs[i] + 1e-30)
                if got is None or got.shape != want.shape or not np.all(np.abs(got - want) <= tol):
                    st.fail("C08.gradient_seen_by_step", f"the gradient parameter {i} holds when step() is called differs from the sum of the gradients of the "
                            f"{st.since_zero[i]} backward call(s) since its last reset (max abs err "
                            f"{'n/a' if got is None or got.shape != want.shape else float(np.max(np.abs(got - want))):.3g}, tol {tol:.3g})", param=i)
                st.probes["accumulated_gradient_checked"] += 1
        if all(grads[i] is None for i in ids):
            st.probes["step_before_any_backward"] += 1
        try:
            with quiet():
                o["obj"].step()
        except SimFault:
            raise
        except Exception as e:
            st.fail("C08.step_raises", f"{o['kind']}.step() raised {type(e).__name__}: {e} "
                    f"(parameters without gradient: {[i for i in ids if grads[i] is None]}, frozen: {sorted(frozen)}) - the cited rule skips such parameters",
                    kind=o["kind"], hp=o["hp"])
        model.t += 1
        o["steps"] += 1
        moving = {i for i in ids if i not in frozen and grads[i] is not None}
        shared_moves = lambda i: any(j != i and j in moving for j in self._group(st, i))     # its storage is (also) another, updated, parameter's
        # isolation
        for i, (b, dt, sh) in outside.items():
            p = st.P[i]
            if shared_moves(i):
                continue
            if p.data.tobytes() != b or p.data.dtype != dt or p.data.shape != sh:
                st.fail("C08.touched_foreign_parameter", f"step() changed parameter {i}, which was not given to this optimizer", param=i)
        for i, b in frozen.items():
            if o["hp"]["weight_decay"]:
                st.probes["frozen_param_with_weight_decay"] += 1
            if st.P[i].data.tobytes() != b and not shared_moves(i):
                st.fail("C08.frozen_parameter_moved", f"step() changed frozen parameter {i} (requires_grad=False; weight_decay={o['hp']['weight_decay']})",
                        param=i, hp=o["hp"])
        for i in ids:
            p = st.P[i]
            if p.data.dtype != meta[i][0] or p.data.shape != meta[i][1]:
                st.fail("C08.dtype_shape_changed", f"step() changed parameter {i} from {meta[i]} to {(p.data.dtype, p.data.shape)}", param=i)
        if o["hp"]["weight_decay"] and any(len([j for j in self._group(st, i) if j in moving]) >= 2 for i in ids):
            judge = False            # (order-dependent: see opt_new) - can only arise in a replay edited by hand or by the minimiser
        if not judge:
            o["desync"] = True
            return
        if o.get("desync"):
            # optimizer state is unknown after an unjudged step: only isolation clauses apply from here on
            return
        # Tied parameters: the cited rules update storage in place, so entries that share storage receive each other's updates
        # (sequential model).  An implementation that re-binds p.data to a new array dissolves the tie at that moment - then each
        # entry moves on its own from its pre-step value, which is admitted too (identity of p.data arrays is not asserted).
        broken = set()
        for i in ids:
            if i in st.root:
                r = st.root[i][0]
                if not np.shares_memory(st.P[i].data, st.P[r].data):
                    broken.add(i)
        if broken:
            st.probes["tie_dissolved_by_rebinding"] += 1
        survivors = []
        worst = None
        for var in model.variants:
            if not var.alive:
                continue
            ok = True
            # parameters are updated one after the other, in place: a parameter whose storage is a view of an earlier one starts from
            # the already updated values (tied weights receive both updates)
            vals = {r: a.copy() for r, a in pre_root.items()}
            own = {i: pre[i].copy() for i in broken}          # ties the step itself dissolved: those parameters move on their own
            for n, i in enumerate(ids):
                if i in frozen or grads[i] is None:
                    continue
                r, how = st.root.get(i, (i, None))
                if i in own:
                    own[i][...] = model.predict(var, n, own[i].copy(), grads[i], commit=True)
                    continue
                view = vals[r] if how is None else self._view(vals[r], how)
                theta = np.array(view, copy=True)
                new = model.predict(var, n, theta, grads[i], commit=True)
                view[...] = new
            for n, i in enumerate(ids):
                p = st.P[i]
                if i in frozen:
                    continue
                if grads[i] is None:
                    st.probes["param_without_grad_skipped"] += 1
                    if p.data.tobytes() != pre[i].astype(p.data.dtype).tobytes() and not shared_moves(i):
                        st.fail("C08.param_without_grad_moved", f"step() changed parameter {i}, which has no gradient", param=i)
                    continue
                r, how = st.root.get(i, (i, None))
                exp = own[i].copy() if i in own else np.array(vals[r] if how is None else self._view(vals[r], how), copy=True)
                if len([j for j in self._group(st, i) if j in moving]) >= 2:
                    st.probes["tied_parameters_both_updated"] += 1
                obs = np.asarray(p.data, dtype=np.float64)
                # (float32 hyper-parameter scalars make the scalar sub-expressions of the rule single precision: the caller's choice)
                low = p.data.dtype == np.float32 or o["hp"].get("np_scalars") == "f4"
                eps = 1.2e-7 if low else 2.3e-16
                k = 48 if low else 4096
                scale = np.abs(pre[i]) + np.abs(exp - pre[i]) + o["hp"]["lr"]
                err = np.abs(obs - exp)
                if not np.all(err <= k * eps * scale):
                    ok = False
                    j = int(np.argmax(err / scale)) if err.size > 1 else 0
                    worst = (var.name, i, float(err.reshape(-1)[j]), float((k * eps * scale).reshape(-1)[j]),
                             float(obs.reshape(-1)[j]), float(exp.reshape(-1)[j]), float(pre[i].reshape(-1)[j]))
            if ok:
                survivors.append(var)
            else:
                var.alive = False
                st.probes["variant_pruned"] += 1
        for n, i in enumerate(ids):
            if st.P[i].requires_grad and grads[i] is not None:
                if st.stepped_since_zero[i] and st.since_zero[i] >= 1:
                    st.probes["step_without_zero_grad"] += 1
                st.stepped_since_zero[i] = True
        if not survivors:
            name, i, err, tol, obs, exp, was = worst
            st.fail("C08.trajectory", f"{o['kind']} step {model.t}: parameter {i} = {obs!r} after step, the rule gives {exp!r} (was {was!r}; "
                    f"abs err {err:.3g} > tol {tol:.3g}; last variant tried: {name})", kind=o["kind"], hp=o["hp"], param=i)
        for i in broken:
            st.root.pop(i, None)
        st.n_steps += 1
        if st.n_steps >= 2:
            st.nontrivial = True
        st.obs("step", ev["oid"], model.t, [v.name for v in survivors])
