"""histsim - C04: leaf gradients accumulate exactly across any history of backward calls.

World: a few shared leaves (some wrapped as Parameters of a Module, some given to an
optimizer only for its zero_grad), graphs built over them by 1-3 logical actors.
Events: build / backward from ANY node (fresh root, former root, former interior, leaf) /
repeat / retain_grad / retain_grads context / three reset APIs / rejected calls (F1) /
kernel or backward-function faults inside a sweep followed by reset and retry (F2).

Oracle: the gradient ledger.  The contribution of every accepted backward(root, g) is
obtained by isolated replay (the sub-graph rebuilt from fresh copies of the leaves in a
fresh world, differentiated once); the ledger adds contributions per leaf and clears
on reset; after EVERY event each requires-grad leaf's .grad must equal its ledger
entry, and tensors not reachable from the root must be byte-identical.

Not asserted: .grad of non-leaf tensors, None-vs-zeros of a never-reached leaf, dtypes.
"""
import gc

import numpy as np

from simkit import ops
from simkit.core import RunState, Sim, enc, dec, small_values
from simkit.world import World, SEAM, SimFault, quiet, fresh_modes

HIST_OPS = [n for n in ops.ALL_OPS if n not in ("batch_norm",)]


class HistSim(Sim):
    PROP = "C04"
    NAME = "histsim"
    QUICK_RUNS = 24000
    THOROUGH_RUNS = 600000
    MAX_EVENTS = 40
    PROBES = ["root_was_root", "root_was_interior", "retained_crossed_again", "leaf_as_root", "leaf_as_root_again",
              "reuse_of_differentiated_node", "no_reset_between_calls", "reset_between_calls", "sweep_under_retain_ctx",
              "unreachable_tensor_with_grad", "fault_mid_sweep", "retry_after_fault", "rejected_backward", "repeat_same_root",
              "zero_via_tensor", "zero_via_module", "zero_via_optimizer", "forward_fault", "no_grad_span", "nonfinite_upstream_gradient", "same_op_same_geometry_by_second_user",
              "batch_norm_with_running_statistics", "same_batch_norm_layer_used_by_two_graphs", "soak_prune", "second_optimizer_over_same_layout", "optimizer_step_between_backward_calls", "step_without_reset_then_more_backward", "module_parameter_added_after_use", "module_parameter_replaced_after_use"]
    RULE = ("one run = a seeded history of build/backward/retain/reset/fault events over shared leaves; distinct = hash of the event-kind "
            "sequence with, per backward, the root's role (fresh/former root/former interior/leaf) and whether retained nodes were crossed; "
            "non-trivial = at least two accepted backward calls")
    ASSUMPTIONS = ["single-shot backward of one fresh graph is taken from the engine itself (isolated replay): C03 decides it",
                   "leaf data is never mutated in these histories (that is C08's world)"]

    def knobs(self, rng, tier):
        soak = rng.random() < 0.004
        return {
            # a SOAK run is one long-running program: thousands of events in one world, graphs built and dropped, hundreds of sweeps between
            # two uses of an old node - what a pool, ring buffer, cache or counter inside the library would need to wrap around
            "soak": soak,
            "max_events": rng.randint(1200, 2600) if soak else rng.randint(8, 40),
            "faulty": rng.random() < 0.35,          # fault-injecting run class
            "n_leaves": rng.randint(2, 5),
            "f32": rng.random() < 0.25,
            "actors": rng.randint(1, 3),
            "ops": sorted(rng.sample(HIST_OPS, rng.randint(6, len(HIST_OPS)))),
            "base": [rng.randint(1, 3), rng.randint(1, 4)],
            "p_backward": rng.choice([0.2, 0.3, 0.45]),
            "p_reset": rng.choice([0.03, 0.1, 0.2]),
        }

    # ------------------------------------------------------------------ state
    def start(self, knobs):
        st = RunState(knobs)
        st.world = World()
        st.SG = st.world.SG
        st.T = {}            # id -> Tensor
        st.meta = {}         # id -> dict(kind, ev, k, rg, inputs)
        st.next_id = 0
        st.ledger = {}       # leaf id -> float64 array | None
        st.abs = {}          # leaf id -> float (sum of |contributions|)
        st.unknown = set()   # leaves whose gradient is unknown until their next reset (after an injected fault)
        st.lowprec = set()   # leaves whose buffer has been float32 since their last reset
        st.module = None
        st.module_ids = []
        st.opt = None
        st.opt_ids = []
        st.retain_ctx = None
        st.nograd_ctx = None
        st.pending = []
        st.setup_done = False
        st.was_root = set()
        st.was_interior = set()
        st.retained = set()
        st.n_backward = 0
        st.since_reset_calls = 0
        st.last_fault_root = None
        # what a re-used operand list holds after a concat/stack call: requires-grad leaves of this history
        ops.LIST_DECOYS = lambda st=st: [st.T[i] for i in sorted(st.T) if st.meta[i]["kind"] == "leaf" and st.meta[i]["rg"]][:3]
        return st

    # ------------------------------------------------------------------ generation
    def gen(self, rng, st):
        kn = st.knobs
        if st.pending:
            return st.pending.pop(0)
        if not st.setup_done:
            leaves = [i for i, m in st.meta.items() if m["kind"] == "leaf"]
            if len(leaves) < kn["n_leaves"]:
                return self._gen_leaf(rng, st)
            st.setup_done = True
            rgl = [i for i in leaves if st.meta[i]["rg"]]
            evs = []
            mp = [i for i in leaves if st.meta[i]["wrap"] == "param"]
            if mp:
                evs.append({"k": "setup_module", "params": mp})
            op = [i for i in leaves if rng.random() < 0.6]
            if op:
                kind = rng.choice(["SGD", "SGDm", "SGDm", "Adam"])
                evs.append({"k": "setup_opt", "params": op, "kind": kind})
                if rng.random() < 0.3:
                    # a second network of the SAME architecture with its own optimizer (online / target net, ensemble members): parameter
                    # lists of equal layout, nothing shared
                    nid = st.next_id
                    twins = []
                    for n_, i in enumerate(op):
                        t = st.T[i]
                        evs.append({"k": "leaf", "id": nid + n_, "data": enc(small_values(rng, t.data.shape, np.float64, -2, 2, avoid_zero=True).astype(t.data.dtype)),
                                    "rg": bool(st.meta[i]["rg"]), "wrap": st.meta[i]["wrap"], "actor": 0})
                        twins.append(nid + n_)
                    evs.append({"k": "setup_opt", "params": twins, "kind": kind, "second": True})
            if evs:
                st.pending.extend(evs[1:])
                return evs[0]
        r = rng.random()
        nodes = [i for i, m in st.meta.items() if m["kind"] == "node"]
        if kn.get("soak") and (len(nodes) >= 12 or len(st.T) > 40):
            return {"k": "prune"}
        rg_all = [i for i in st.T if st.T[i].requires_grad]
        if (r < kn["p_backward"] and rg_all and nodes) or (len(nodes) >= 14 and rg_all):
            return self._gen_backward(rng, st, rg_all)
        r = rng.random()
        if r < kn["p_reset"]:
            return self._gen_zero(rng, st)
        if r < kn["p_reset"] + 0.05 and nodes:
            c = [i for i in nodes if st.T[i].requires_grad]
            if c:
                return {"k": "retain_grad", "node": rng.choice(c)}
        if r < kn["p_reset"] + 0.09:
            return {"k": "retain_ctx", "on": st.retain_ctx is None}
        if r < kn["p_reset"] + 0.115:
            # a span of events inside no_grad: results built there are constants (no history), also when built from tracked tensors
            return {"k": "nograd_ctx", "on": st.nograd_ctx is None}
        if r < kn["p_reset"] + 0.14 and st.T:
            return self._gen_bad_backward(rng, st)
        if r < kn["p_reset"] + 0.16:
            return {"k": "gc"}
        if r < kn["p_reset"] + 0.20 and st.opt is not None:
            # an optimizer step between backward calls WITHOUT a reset (a step per micro-batch while gradients keep accumulating)
            return {"k": "opt_step"}
        if r < kn["p_reset"] + 0.23 and st.module is not None:
            # the module tree changes after it has been used: a parameter is added inside a sub-module, or one is replaced
            shape = rng.choice([(2,), (3,), tuple(kn["base"])])
            return {"k": "module_add", "id": st.next_id, "data": enc(small_values(rng, shape, np.float64, -2, 2, avoid_zero=True)),
                    "where": rng.choice(["root", "child", "grand"]), "replace": rng.random() < 0.4}
        if len(nodes) < 14:
            if rng.random() < 0.06:
                ev = self._gen_bn(rng, st)
                if ev is not None:
                    return ev
            if nodes and rng.random() < 0.1:
                ev = self._gen_twin(rng, st, nodes)
                if ev is not None:
                    return ev
            ev = self._gen_op(rng, st)
            if ev is not None:
                return ev
        if rg_all:
            return self._gen_backward(rng, st, rg_all)
        return self._gen_leaf(rng, st)

    def _gen_bn(self, rng, st):
        """batch norm with running statistics (buffers = leaves that do not require grad, updated in place by training forwards) and
        affine parameters; often the SAME layer (buffers and parameters) is used by a second forward in the other mode before the first
        graph is differentiated: the eval-mode graph must keep the statistics it was built with"""
        xs = [i for i, t in st.T.items() if not st.meta[i].get("bn") and t.data.dtype.kind == "f" and t.data.ndim in (2, 3) and t.data.size and
              t.data.size // t.data.shape[1] >= 2 and np.isfinite(t.data).all() and np.abs(t.data).max() < 64]
        if not xs:
            return None
        x = rng.choice(xs)
        c = st.T[x].data.shape[1]
        dt = st.T[x].data.dtype
        nid = st.next_id
        act = rng.randrange(st.knobs["actors"])
        evs = [{"k": "leaf", "id": nid, "data": enc(small_values(rng, (c,), dt, -1, 1)), "rg": False, "wrap": "tensor", "actor": act, "bn": True},
               {"k": "leaf", "id": nid + 1, "data": enc(np.abs(small_values(rng, (c,), dt, -2, 2)) + 0.5), "rg": False, "wrap": "tensor", "actor": act, "bn": True}]
        ins = [x, nid, nid + 1]
        n = nid + 2
        if rng.random() < 0.75:
            evs.append({"k": "leaf", "id": n, "data": enc(small_values(rng, (c,), dt, -2, 2, avoid_zero=True)), "rg": True, "wrap": "param", "actor": act})
            evs.append({"k": "leaf", "id": n + 1, "data": enc(small_values(rng, (c,), dt, -2, 2)), "rg": True, "wrap": "param", "actor": act})
            ins += [n, n + 1]
            n += 2
        training = rng.random() < 0.5
        evs.append({"k": "op", "op": "batch_norm_run", "in": ins, "args": {"training": training, "momentum": rng.choice([0.1, 0.5, 1.0])}, "out": [n], "actor": act})
        if rng.random() < 0.6:
            x2 = rng.choice([i for i in xs if st.T[i].data.shape[1] == c])
            evs.append({"k": "op", "op": "batch_norm_run", "in": [x2] + ins[1:], "args": {"training": not training if rng.random() < 0.7 else training,
                        "momentum": rng.choice([0.1, 1.0])}, "out": [n + 1], "actor": rng.randrange(st.knobs["actors"])})
        st.pending.extend(evs[1:])
        return evs[0]

    def _gen_twin(self, rng, st, nodes):
        """A second user issues an EARLIER operation again - same op, same arguments, same operand shapes/dtypes, other values -
        before (or after) the first graph is differentiated: anything the library keeps per geometry rather than per call would be shared."""
        geo = [i for i in nodes if st.meta[i]["ev"]["op"] in ("conv1d", "conv2d", "max_pool1d", "avg_pool1d", "max_pool2d", "avg_pool2d", "unfold", "unfold_dim")]
        src = st.meta[rng.choice(geo if (geo and rng.random() < 0.5) else nodes)]["ev"]      # (half of the time an op with window geometry, if there is one)
        if any(i not in st.T for i in src["in"]) or src["op"] in ("unbind", "batch_norm_run"):
            return None
        evs, twin, nid = [], {}, st.next_id
        for i in src["in"]:
            if i in twin:
                continue
            t = st.T[i]
            if t.data.dtype.kind != "f" or t.data.size > 4096:
                return None
            if rng.random() < 0.25:
                twin[i] = i                 # this operand is shared by the two users
                continue
            vals = small_values(rng, t.data.shape, np.float64, -2, 2, avoid_zero=True).astype(t.data.dtype)
            if (t.data > 0).all():
                vals = np.abs(vals) + t.data.dtype.type(0.125)
            evs.append({"k": "leaf", "id": nid, "data": enc(vals), "rg": bool(t.requires_grad), "wrap": "tensor", "actor": rng.randrange(st.knobs["actors"])})
            twin[i] = nid
            nid += 1
        evs.append({"k": "op", "op": src["op"], "in": [twin[i] for i in src["in"]], "args": src["args"], "out": [nid], "actor": rng.randrange(st.knobs["actors"]), "twin": True})
        st.pending.extend(evs[1:])
        return evs[0]

    def _gen_leaf(self, rng, st):
        kn = st.knobs
        b = kn["base"]
        shapes = [tuple(b), (b[1],), (1, b[1]), (b[0], 1), (b[1], b[0]), (), (1,), (b[1], b[1]), (2, b[0], b[1]), (1, b[0], 4)]
        w = [6, 3, 2, 2, 3, 1, 1, 2, 1, 1]
        shape = rng.choices(shapes, w)[0]
        dtype = "f4" if (kn["f32"] and rng.random() < 0.6) else "f8"
        vals = small_values(rng, shape, np.float64, -2, 2, avoid_zero=rng.random() < 0.5)
        leaves = [i for i, m in st.meta.items() if m["kind"] == "leaf"]
        rg = True if not any(st.meta[i]["rg"] for i in leaves) else rng.random() < 0.75
        id = st.next_id
        return {"k": "leaf", "id": id, "data": enc(vals.astype(np.float32 if dtype == "f4" else np.float64)), "rg": rg,
                "wrap": "param" if rng.random() < 0.4 else "tensor", "actor": rng.randrange(kn["actors"])}

    def _gen_op(self, rng, st):
        pool = [ops.Ref(i, t) for i, t in st.T.items() if not st.meta[i].get("bn")]
        pool = [r for r in pool if r.finite and r.mag <= 64]
        if len(pool) > 6 and rng.random() < 0.7:
            # bias towards recent results and leaves
            recent = sorted(pool, key=lambda r: r.id)[-4:]
            leaves = [r for r in pool if st.meta[r.id]["kind"] == "leaf"]
            pool = recent + leaves
        got = ops.gen_op(rng, pool, st.knobs["ops"], {})
        if got is None:
            return None
        name, ins, args = got
        spec = ops.SPECS[name]
        nout = args.get("n", 1) if name == "unbind" else 1
        outs = list(range(st.next_id, st.next_id + nout))
        ev = {"k": "op", "op": name, "in": ins, "args": args, "out": outs, "actor": rng.randrange(st.knobs["actors"])}
        if st.knobs["faulty"] and rng.random() < 0.06:
            ev["fault"] = {"kind": rng.choice(["alloc", "interrupt", "exit"]), "at": rng.randint(1, 2)}
            if rng.random() < 0.5:
                ev["fault"].update(seam="line", at=rng.randint(1, 70))
        return ev

    def _gen_backward(self, rng, st, rg_all):
        # bias: former roots, former interiors, retained nodes, leaves, fresh nodes
        cats = []
        fr = [i for i in rg_all if i in st.was_root]
        fi = [i for i in rg_all if i in st.was_interior]
        rt = [i for i in rg_all if i in st.retained]
        lf = [i for i in rg_all if st.meta[i]["kind"] == "leaf"]
        fresh = [i for i in rg_all if st.meta[i]["kind"] == "node" and i not in st.was_root and i not in st.was_interior]
        for c, w in ((fr, 2), (fi, 2), (rt, 1), (lf, 1), (fresh, 5)):
            if c:
                cats.append((c, w))
        c = rng.choices([x[0] for x in cats], [x[1] for x in cats])[0]
        # nodes that have consumers which were roots: their consumers make them "interior of an earlier call"
        root = rng.choice(c)
        t = st.T[root]
        if t.data.size == 1 and rng.random() < 0.6:
            g = None
        else:
            # the upstream gradient usually has the root's dtype, sometimes the other floating dtype
            same = rng.random() < 0.8
            gdt = t.data.dtype.type if same else (np.float64 if t.data.dtype == np.float32 else np.float32)
            gv = small_values(rng, t.data.shape, gdt, -2, 2)
            g = enc(gv)
            if rng.random() < 0.02 and gv.size:
                g["v"][rng.randrange(gv.size)] = rng.choice([float("inf"), float("-inf")])      # a legal float: an overflowed upstream gradient
        ev = {"k": "backward", "root": root, "g": g}
        if st.knobs["faulty"] and rng.random() < 0.3:
            n = max(1, len(self._reach(st, root)))
            u = rng.random()
            if u < 0.4:
                # a crash point at an arbitrary executed line of the sweep (inside a closure, between two accumulations, in the traversal)
                ev["fault"] = {"kind": rng.choice(["alloc", "interrupt", "exit"]), "seam": "line", "at": rng.randint(1, 60 + 110 * n)}
            elif u < 0.7:
                ev["fault"] = {"kind": rng.choice(["alloc", "interrupt", "exit"]), "seam": "kernel", "at": rng.randint(1, 2 * n)}
            else:
                ev["fault"] = {"kind": rng.choice(["alloc", "interrupt", "exit"]), "seam": "bw", "at": rng.randint(1, n)}
        return ev

    def _gen_zero(self, rng, st):
        leaves = [i for i, m in st.meta.items() if m["kind"] == "leaf"]
        vias = ["tensor"]
        if st.module is not None:
            vias.append("module")
        if st.opt is not None:
            vias.append("optimizer")
        if getattr(st, "opt2", None) is not None:
            vias += ["optimizer2", "optimizer2"]
        via = rng.choice(vias)
        if via == "tensor":
            k = rng.randint(1, len(leaves))
            return {"k": "zero", "via": "tensor", "ids": sorted(rng.sample(leaves, k))}
        return {"k": "zero", "via": via}

    def _gen_bad_backward(self, rng, st):
        how = rng.choice(["noscalar_nog", "wrong_shape", "no_grad_tensor"])
        ids = list(st.T)
        if how == "noscalar_nog":
            c = [i for i in ids if st.T[i].requires_grad and st.T[i].data.size > 1]
        elif how == "wrong_shape":
            c = [i for i in ids if st.T[i].requires_grad]
        else:
            c = [i for i in ids if not st.T[i].requires_grad]
        if not c:
            return {"k": "gc"}
        return {"k": "bad_backward", "root": rng.choice(c), "how": how}

    # ------------------------------------------------------------------ helpers
    def _reach(self, st, root):
        seen = set()
        stack = [root]
        while stack:
            i = stack.pop()
            if i in seen:
                continue
            seen.add(i)
            m = st.meta[i]
            if m["kind"] == "node" and not m["rg"]:
                continue          # an untracked result is a cut: what lies behind it is not part of the graph being differentiated
            stack.extend(m["inputs"])
        return seen

    def _grad_bytes(self, t):
        try:
            with quiet():
                g = t.grad
        except Exception as e:
            # reading .grad is the property's observation point: it cannot fail, whatever the history (e.g. after an interrupted sweep)
            self._cur.fail("C04.grad_unreadable", f"reading .grad of a tensor raised {type(e).__name__}: {e}")
        return None if g is None else (g.data.shape, str(g.data.dtype), g.data.tobytes())

    def _snapshot(self, st, ids):
        return {i: (st.T[i].data.tobytes(), self._grad_bytes(st.T[i])) for i in ids}

    def _same_grad(self, before, after):
        if before == after:
            return True
        if before is None and after is not None:
            return not any(after[2])          # absent before, all-zero after: the same observable sum
        return False

    def _check_unchanged(self, st, snap, clause, what):
        for i, (d, g) in snap.items():
            t = st.T[i]
            if t.data.tobytes() != d:
                st.fail(clause, f"{what}: data of tensor {i} changed", tensor=i)
            if not self._same_grad(g, self._grad_bytes(t)):
                st.fail(clause, f"{what}: gradient of tensor {i} changed", tensor=i)

    def _check_leaves(self, st, where):
        for i, m in st.meta.items():
            if m["kind"] != "leaf" or not m["rg"] or i in st.unknown:
                continue
            t = st.T[i]
            try:
                with quiet():
                    g = t.grad
            except Exception as e:
                st.fail("C04.grad_unreadable", f"{where}: reading .grad of leaf {i} raised {type(e).__name__}: {e}", leaf=i)
            exp = st.ledger.get(i)
            if g is None:
                obs = np.zeros(t.data.shape)
            else:
                obs = np.asarray(g.data, dtype=np.float64)
                if obs.shape != t.data.shape:
                    st.fail("C04.ledger", f"{where}: .grad of leaf {i} has shape {obs.shape}, leaf has {t.data.shape}", leaf=i)
            if exp is None:
                exp = np.zeros(t.data.shape)
            if not np.isfinite(exp).all():
                st.notes["nonfinite_ledger_not_compared"] += 1     # inf/nan arithmetic is not an equality: judged again after the next reset
                continue
            # precision class of the buffer since the last reset (a root's buffer takes the dtype of the caller's g - a dtype matter,
            # C10, not decided here - so a float32 g makes the accumulation single precision until the next reset)
            if g is not None and g.data.dtype == np.float32:
                st.lowprec.add(i)
            low = (t.data.dtype == np.float32) or i in st.lowprec
            eps = 1.2e-7 if low else 2.3e-16
            tol = 64 * eps * (st.abs.get(i, 0.0) + 1e-30) + 1e-300
            err = float(np.max(np.abs(obs - exp))) if obs.size else 0.0
            if not (err <= tol):
                st.fail("C04.ledger", f"{where}: leaf {i} .grad differs from the sum of contributions since its last reset "
                        f"(max abs err {err:.3g}, tol {tol:.3g})", leaf=i, observed=obs.tolist(), expected=exp.tolist())

    def _isolated(self, st, root, g):
        """Contributions of backward(root, g) per leaf, by isolated replay in a fresh world.

        Every *use* of a requires-grad leaf gets its own fresh copy, so each copy receives
        exactly one accumulation term p_k; the contribution is sum_k p_k (float64) and
        sum_k |p_k| scales the rounding tolerance.  Returns {leaf: (net, abs)} or the exception."""
        SG = st.SG
        reach = sorted(self._reach(st, root))
        try:
            with fresh_modes(SG), quiet():
                fresh = {}
                clones = {}
                done_ev = {}

                def operand(j, ev=None):
                    m = st.meta[j]
                    if m["kind"] == "leaf":
                        frozen = getattr(st, "op_snap", {}).get(id(ev), {}) if ev is not None else {}
                        c = SG.Tensor((frozen[j] if j in frozen else st.T[j].data).copy(), requires_grad=m["rg"])
                        if m["rg"]:
                            clones.setdefault(j, []).append(c)
                        return c
                    return fresh[j]

                for i in reach:
                    m = st.meta[i]
                    if m["kind"] == "leaf":
                        continue
                    if not m["rg"]:
                        fresh[i] = SG.Tensor(st.T[i].data.copy())      # a constant (built under no_grad or from constants)
                        continue
                    ev = m["ev"]
                    key = id(ev)
                    if key not in done_ev:
                        done_ev[key] = ops.as_list(ops.apply_op(SG, ev["op"], [operand(j, ev) for j in ev["in"]], ev["args"]))
                    fresh[i] = done_ev[key][m["k"]]
                gt = None if g is None else SG.Tensor(g.copy())
                rt = operand(root) if st.meta[root]["kind"] == "leaf" else fresh[root]
                rt.backward(gt)
                out = {}
                for i, cs in clones.items():
                    net = np.zeros(st.T[i].data.shape)
                    ab = np.zeros(st.T[i].data.shape)
                    for c in cs:
                        gr = c.grad
                        if gr is not None:
                            a = np.asarray(gr.data, dtype=np.float64)
                            net = net + a
                            ab = ab + np.abs(a)
                    out[i] = (net, float(ab.max()) if ab.size else 0.0)
                return out
        except SimFault:
            raise
        except Exception as e:
            return e

    # ------------------------------------------------------------------ application
    def apply(self, st, ev):
        k = ev["k"]
        self._cur = st
        st.cur_sig = k
        getattr(self, "_ev_" + k)(st, ev)
        st.sig.append(st.cur_sig)

    def _ev_leaf(self, st, ev):
        SG = st.SG
        data = dec(ev["data"])
        t = SG.Tensor(data, requires_grad=ev["rg"])
        if ev["wrap"] == "param":
            t = SG.nn.Parameter(t)
        i = ev["id"]
        st.T[i] = t
        # (a tensor created inside a no_grad span does not require grad whatever was asked: C07's clause, taken as given here)
        st.meta[i] = {"kind": "leaf", "rg": bool(ev["rg"]) and st.nograd_ctx is None, "inputs": [], "wrap": ev["wrap"], "bn": bool(ev.get("bn"))}
        st.ledger[i] = None
        st.abs[i] = 0.0
        st.next_id = max(st.next_id, i + 1)

    def _ev_setup_module(self, st, ev):
        ids = [i for i in ev["params"] if i in st.T and isinstance(st.T[i], st.SG.nn.Parameter)]
        if not ids:
            st.skipped += 1
            return
        SG = st.SG

        class Holder(SG.nn.Module):
            def __init__(self):
                super().__init__()
        # a small tree: every other parameter lives in a child (and one in a grandchild), so Module.zero_grad must recurse
        m = Holder()
        child = Holder()
        grand = Holder()
        for n, i in enumerate(ids):
            setattr((m, child, m, grand)[n % 4] if ev.get("nested", True) else m, f"p{n}", st.T[i])
        child.inner = grand
        m.child = child
        st.module = m
        st.module_ids = ids

    def _ev_setup_opt(self, st, ev):
        ids = [i for i in ev["params"] if i in st.T and st.meta[i]["kind"] == "leaf"]
        if not ids:
            st.skipped += 1
            return
        O = st.SG.optim
        ps = [st.T[i] for i in ids]
        kind = ev.get("kind", "SGD")
        opt = st.must("C04.reset_raises", "constructing an optimizer over the leaves (some of them frozen)",
                      lambda: O.SGD(ps, lr=0.1) if kind == "SGD" else O.SGD(ps, lr=0.1, momentum=0.9) if kind == "SGDm" else O.Adam(ps, lr=0.01))
        if ev.get("second"):
            st.opt2, st.opt2_ids = opt, ids
            st.probes["second_optimizer_over_same_layout"] += 1
            return
        st.opt = opt
        st.opt_ids = ids

    def _ev_prune(self, st, ev):
        """the program drops results it no longer needs (newest first, so some OLD nodes survive and are re-used much later) and leaves
        nobody refers to"""
        def consumers():
            used = set()
            for i, m in st.meta.items():
                if m["kind"] == "node" and i in st.T:
                    used.update(m["inputs"])
            return used
        for _ in range(64):
            nodes = sorted(i for i, m in st.meta.items() if m["kind"] == "node")
            if len(nodes) <= 5:
                break
            used = consumers()
            tops = [i for i in nodes if i not in used]
            if not tops:
                break
            j = tops[-1]
            del st.T[j]
            del st.meta[j]
            st.retained.discard(j)
        used = consumers()
        keep = set(st.module_ids) | set(getattr(st, "opt_ids", []) or []) | set(getattr(st, "opt2_ids", []) or [])
        leaves = sorted(i for i, m in st.meta.items() if m["kind"] == "leaf")
        for j in leaves:
            if len([i for i, m in st.meta.items() if m["kind"] == "leaf"]) <= 10:
                break
            if j not in used and j not in keep:
                del st.T[j]
                del st.meta[j]
                st.ledger.pop(j, None)
                st.abs.pop(j, None)
                st.unknown.discard(j)
                st.lowprec.discard(j)
        st.last_fault_root = None
        st.pending = [e for e in st.pending if e.get("k") not in ("backward", "zero")]
        gc.collect()
        st.probes["soak_prune"] += 1

    def _ev_opt_step(self, st, ev):
        if st.opt is None:
            st.skipped += 1
            return
        ids = [i for i in st.opt_ids if i in st.T]
        snap = self._snapshot(st, [i for i in st.T if st.meta[i]["kind"] == "leaf" and i not in ids])
        before = {i: st.T[i].data.tobytes() for i in ids}
        st.must("C04.step_raises", "Optimizer.step()", st.opt.step)
        st.probes["optimizer_step_between_backward_calls"] += 1
        if st.since_reset_calls:
            st.probes["step_without_reset_then_more_backward"] += 1
        self._check_unchanged(st, snap, "C04.unreachable", "optimizer step (a leaf that was not given to the optimizer)")
        # a step changes parameter VALUES, never gradients: every leaf still holds the sum of the contributions since its last reset
        self._check_leaves(st, "after Optimizer.step()")
        # results computed from the old values are stale: the program builds new graphs from here on
        moved = {i for i in ids if st.T[i].data.tobytes() != before[i]}
        if moved:
            stale = [j for j in st.T if st.meta[j]["kind"] == "node" and (self._reach_all(st, j) & moved)]
            for j in stale:
                del st.T[j]
                del st.meta[j]
                st.retained.discard(j)
            st.last_fault_root = None
            st.pending = [e for e in st.pending if e.get("k") != "backward"]

    def _reach_all(self, st, root):
        seen, stack = set(), [root]
        while stack:
            i = stack.pop()
            if i in seen or i not in st.meta:
                continue
            seen.add(i)
            stack.extend(st.meta[i]["inputs"])
        return seen

    def _ev_module_add(self, st, ev):
        SG = st.SG
        if st.module is None:
            st.skipped += 1
            return
        # the tree has been used before: its parameters were listed (zero_grad)
        st.must("C04.reset_raises", "Module.zero_grad()", st.module.zero_grad)
        for i in [i for i in st.module_ids if st.meta[i]["rg"]]:
            st.ledger[i] = None
            st.abs[i] = 0.0
            st.unknown.discard(i)
            st.lowprec.discard(i)
        t = SG.nn.Parameter(SG.Tensor(dec(ev["data"]), requires_grad=True))
        i = ev["id"]
        host = st.module
        try:
            if ev["where"] in ("child", "grand"):
                host = host.child
            if ev["where"] == "grand":
                host = host.inner
        except AttributeError:
            host = st.module
        names = [n for n, p in host._parameters.items()] if hasattr(host, "_parameters") else []
        if ev.get("replace") and names:
            # an existing registration is replaced: the old parameter is no longer part of the module
            name = names[0]
            old = getattr(host, name)
            old_ids = [j for j in st.module_ids if st.T.get(j) is old]
            setattr(host, name, t)
            still = any(p is old for p in st.module.parameters())
            if not still:
                st.module_ids = [j for j in st.module_ids if j not in old_ids]
            st.probes["module_parameter_replaced_after_use"] += 1
        else:
            setattr(host, f"added{i}", t)
            st.probes["module_parameter_added_after_use"] += 1
        st.T[i] = t
        st.meta[i] = {"kind": "leaf", "rg": st.nograd_ctx is None, "inputs": [], "wrap": "param"}
        st.ledger[i] = None
        st.abs[i] = 0.0
        st.module_ids = st.module_ids + [i]
        st.next_id = max(st.next_id, i + 1)

    def _ev_op(self, st, ev):
        SG = st.SG
        if any(i not in st.T for i in ev["in"]):
            st.skipped += 1
            return
        xs = [st.T[i] for i in ev["in"]]
        fault = ev.get("fault")
        if ev["op"] == "batch_norm_run":
            # the running statistics this forward is built with (a later training forward of the same layer moves them on)
            if not hasattr(st, "op_snap"):
                st.op_snap = {}
            st.op_snap[id(ev)] = {j: st.T[j].data.copy() for j in ev["in"][1:3]}
            st.probes["batch_norm_with_running_statistics"] += 1
            if any(st.meta[o]["kind"] == "node" and st.meta[o]["ev"]["op"] == "batch_norm_run" and st.meta[o]["ev"]["in"][1] == ev["in"][1] for o in st.T if o in st.meta):
                st.probes["same_batch_norm_layer_used_by_two_graphs"] += 1
        snap = self._snapshot(st, list(st.T)) if fault else None
        if fault:
            SEAM.arm_spec(fault)
        try:
            with quiet():
                res = ops.as_list(ops.apply_op(SG, ev["op"], xs, ev["args"]))
            SEAM.disarm()
        except SimFault as e:
            st.faults[f"forward_{fault.get('seam', 'kernel')}_{fault['kind']}"] += 1
            st.probes["forward_fault"] += 1
            SEAM.disarm()
            self._check_unchanged(st, snap, "C04.unreachable", "forward op aborted by an injected fault")
            self._check_leaves(st, "after aborted forward op")
            st.cur_sig = "op!fault"
            return
        except Exception as e:
            SEAM.disarm()
            st.notes["op_rejected"] += 1
            st.obs("op", ev["op"], "rejected", type(e).__name__)
            self._check_leaves(st, "after rejected op")
            st.cur_sig = "op!rej"
            return
        SEAM.disarm()
        if any(i in st.was_root or i in st.was_interior for i in ev["in"]):
            st.probes["reuse_of_differentiated_node"] += 1
        if ev.get("twin"):
            st.probes["same_op_same_geometry_by_second_user"] += 1
        for k, (i, t) in enumerate(zip(ev["out"], res)):
            st.T[i] = t
            st.meta[i] = {"kind": "node", "ev": ev, "k": k, "rg": bool(t.requires_grad), "inputs": list(ev["in"])}
            st.next_id = max(st.next_id, i + 1)
        st.obs("op", ev["op"], [tuple(t.data.shape) for t in res])
        self._check_leaves(st, f"after building {ev['op']}")

    def _ev_retain_grad(self, st, ev):
        i = ev["node"]
        if i not in st.T:
            st.skipped += 1
            return
        try:
            st.T[i].retain_grad()
            st.retained.add(i)
        except Exception:
            st.notes["retain_grad_rejected"] += 1
        self._check_leaves(st, "after retain_grad")

    def _ev_retain_ctx(self, st, ev):
        if ev["on"] and st.retain_ctx is None:
            st.retain_ctx = st.SG.sg.retain_grads()
            st.retain_ctx.__enter__()
        elif not ev["on"] and st.retain_ctx is not None:
            st.retain_ctx.__exit__(None, None, None)
            st.retain_ctx = None
        self._check_leaves(st, "after retain_grads enter/exit")

    def _ev_gc(self, st, ev):
        gc.collect()

    def _ev_nograd_ctx(self, st, ev):
        if ev["on"] and st.nograd_ctx is None:
            st.nograd_ctx = st.SG.sg.no_grad()
            st.nograd_ctx.__enter__()
            st.probes["no_grad_span"] += 1
        elif not ev["on"] and st.nograd_ctx is not None:
            st.nograd_ctx.__exit__(None, None, None)
            st.nograd_ctx = None
        self._check_leaves(st, "after no_grad enter/exit")

    def _ev_zero(self, st, ev):
        via = ev["via"]
        if via == "tensor":
            ids = [i for i in ev["ids"] if i in st.T and st.meta[i]["kind"] == "leaf"]
            for i in ids:
                st.must("C04.reset_raises", f"zero_() on leaf {i}", st.T[i].zero_)
            reset = ids
        elif via == "module":
            if st.module is None:
                st.skipped += 1
                return
            st.must("C04.reset_raises", "Module.zero_grad()", st.module.zero_grad)
            reset = [i for i in st.module_ids if st.meta[i]["rg"]]
        elif via == "optimizer2":
            if getattr(st, "opt2", None) is None:
                st.skipped += 1
                return
            st.must("C04.reset_raises", "Optimizer.zero_grad() of the second optimizer", st.opt2.zero_grad)
            reset = [i for i in st.opt2_ids if i in st.T]
        else:
            if st.opt is None:
                st.skipped += 1
                return
            st.must("C04.reset_raises", "Optimizer.zero_grad()", st.opt.zero_grad)
            reset = list(st.opt_ids)
        st.probes["zero_via_" + via] += 1
        for i in reset:
            st.ledger[i] = None
            st.abs[i] = 0.0
            st.unknown.discard(i)
            st.lowprec.discard(i)
        if st.last_fault_root is not None and not (self._reach(st, st.last_fault_root[0]) & st.unknown):
            pass
        st.since_reset_calls = 0
        st.cur_sig = "zero:" + via
        self._check_leaves(st, f"after zero via {via}")

    def _ev_bad_backward(self, st, ev):
        SG = st.SG
        i = ev["root"]
        if i not in st.T:
            st.skipped += 1
            return
        t = st.T[i]
        how = ev["how"]
        reach = self._reach(st, i)
        snap = self._snapshot(st, [j for j in st.T if j not in reach])
        data_snap = {j: st.T[j].data.tobytes() for j in reach}
        try:
            with quiet():
                if how == "noscalar_nog":
                    t.backward()
                elif how == "wrong_shape":
                    t.backward(SG.Tensor(np.ones(tuple(t.data.shape) + (2,))))
                else:
                    t.backward(SG.Tensor(np.ones(t.data.shape)))
        except SimFault:
            raise
        except Exception as e:
            st.probes["rejected_backward"] += 1
            st.obs("bad_backward", how, type(e).__name__)
            # a rejected call is not "issued": nothing may have changed (zero-initialised buffers are the same observable sum)
            # (.grad of reachable NON-leaf tensors is not asserted: the statement is about leaves)
            self._check_unchanged(st, snap, "C04.rejected_call_changed_state", f"rejected backward ({how})")
            for j, d in data_snap.items():
                if st.T[j].data.tobytes() != d:
                    st.fail("C04.rejected_call_changed_state", f"rejected backward ({how}): data of tensor {j} changed", tensor=j)
            self._check_leaves(st, f"after rejected backward ({how})")
            st.cur_sig = "bad:" + how
            return
        # the call was accepted (e.g. a size-1 tensor needs no g): treat leaves reachable from it as unknown
        st.notes["bad_backward_accepted"] += 1
        for l in self._reach(st, i):
            if st.meta[l]["kind"] == "leaf":
                st.unknown.add(l)

    def _ev_backward(self, st, ev):
        SG = st.SG
        root = ev["root"]
        if root not in st.T:
            st.skipped += 1
            return
        t = st.T[root]
        if not t.requires_grad:
            st.skipped += 1
            return
        g = None if ev["g"] is None else dec(ev["g"])
        if g is None and t.data.size != 1:
            st.skipped += 1
            return
        if g is not None and g.shape != t.data.shape:
            st.skipped += 1
            return
        reach = self._reach(st, root)
        if g is not None and not np.isfinite(g).all():
            st.probes["nonfinite_upstream_gradient"] += 1
        others = [i for i in st.T if i not in reach]
        snap = self._snapshot(st, others)
        if any(self._grad_bytes(st.T[i]) is not None for i in others):
            st.probes["unreachable_tensor_with_grad"] += 1
        # probes / signature
        kind = st.meta[root]["kind"]
        role = "leaf" if kind == "leaf" else "former_root" if root in st.was_root else "former_interior" if root in st.was_interior else "fresh"
        if role == "former_root":
            st.probes["root_was_root"] += 1
            st.probes["repeat_same_root"] += 1
        if role == "former_interior":
            st.probes["root_was_interior"] += 1
        if role == "leaf":
            st.probes["leaf_as_root_again" if root in st.was_root else "leaf_as_root"] += 1
        crossed = [i for i in reach if i != root and st.meta[i]["kind"] == "node" and (i in st.retained or i in st.was_root) and
                   self._grad_bytes(st.T[i]) is not None]
        if crossed:
            st.probes["retained_crossed_again"] += 1
        if st.retain_ctx is not None:
            st.probes["sweep_under_retain_ctx"] += 1
        st.probes["no_reset_between_calls" if st.since_reset_calls else "reset_between_calls"] += 1
        retry = st.last_fault_root is not None and st.last_fault_root[0] == root
        fault = ev.get("fault")
        gt = None if g is None else SG.Tensor(g.copy())
        if fault:
            SEAM.arm_spec(fault)
        raised = None
        try:
            with quiet():
                t.backward(gt)
        except SimFault as e:
            raised = e
        except Exception as e:
            raised = e
        SEAM.disarm()
        # the reference: the same call on a fresh copy of the graph.  It runs AFTER the system's sweep: the replay's own forward pass
        # would otherwise refresh anything the library keeps per process (per-geometry caches, scratch buffers) just before the sweep
        # under test reads it, and heal exactly the state a history is meant to expose
        contrib = self._isolated(st, root, g)
        st.cur_sig = f"bw:{role}:{'x' if crossed else '-'}:{'f' if isinstance(raised, SimFault) else '-'}"
        leaves_reached = [i for i in reach if st.meta[i]["kind"] == "leaf" and st.meta[i]["rg"]]
        # precision class: a NON-leaf that was once seeded with a float32 g may keep a float32 buffer (re-zeroed in place or replaced -
        # a dtype matter, C10, not decided here); sweeps crossing it may then accumulate in single precision
        if any(st.T[i].data.dtype == np.float32 for i in reach if i in st.T):
            # a single-precision value anywhere in the graph (also the 0-d results this tree re-wraps as float32) puts the sweep in the
            # single-precision tolerance class: in which dtype an interior buffer accumulates is a dtype matter (C10), not decided here
            st.lowprec.update(leaves_reached)
        low_nodes = st.__dict__.setdefault("low_nodes", set())
        if any(i in low_nodes for i in reach if i != root) and raised is None:
            # the rounding of such a sweep scales with INTERIOR magnitudes (terms that cancel inside the node), which the leaf-level
            # tolerance cannot see: these leaves are not judged until their next reset
            st.unknown.update(leaves_reached)
            st.notes["sweep_crossed_float32_seeded_node_not_judged"] += 1
        if g is not None and st.meta[root]["kind"] == "node" and (g.dtype == np.float32 or g.dtype != t.data.dtype):
            # (also a float64 seed on a float32 node: whether the buffer a LATER sweep accumulates in is the old float64 one, zeroed in
            # place, or a fresh float32 one is the same dtype matter)
            low_nodes.add(root)
        if isinstance(raised, SimFault):
            st.faults[f"sweep_{fault['seam']}_{fault['kind']}"] += 1
            st.probes["fault_mid_sweep"] += 1
            st.unknown.update(leaves_reached)
            st.last_fault_root = (root, ev["g"])
            self._check_unchanged(st, snap, "C04.unreachable", "backward aborted by an injected fault")
            self._check_leaves(st, "after aborted backward")
            # scripted recovery: reset the affected leaves, then retry on the very same graph
            if not st.pending and leaves_reached:
                st.pending.append({"k": "zero", "via": "tensor", "ids": sorted(leaves_reached)})
                st.pending.append({"k": "backward", "root": root, "g": ev["g"]})
            return
        if raised is not None:
            if isinstance(contrib, Exception):
                # the same call fails on a fresh copy of the graph: a per-op matter (C01/C02), not a history effect
                st.notes["backward_raises_also_in_isolation"] += 1
                st.unknown.update(leaves_reached)
                self._check_unchanged(st, snap, "C04.unreachable", "failed backward")
                return
            st.fail("C04.backward_raises", f"backward(root={root}) raised {type(raised).__name__}: {raised} in this history, "
                    "although the same call on a fresh copy of the graph succeeds", root=root)
        if isinstance(contrib, Exception):
            st.notes["isolated_replay_raises_only"] += 1
            st.unknown.update(leaves_reached)
            return
        st.n_backward += 1
        st.since_reset_calls += 1
        if st.n_backward >= 2:
            st.nontrivial = True
        if retry:
            st.probes["retry_after_fault"] += 1
            st.last_fault_root = None
        for i, (c, ab) in contrib.items():
            st.ledger[i] = c.copy() if st.ledger[i] is None else st.ledger[i] + c
            st.abs[i] += ab
        st.was_root.add(root)
        st.was_interior.update(i for i in reach if i != root and st.meta[i]["kind"] == "node")
        st.obs("backward", root, role)
        self._check_unchanged(st, snap, "C04.unreachable", f"backward(root={root})")
        self._check_leaves(st, f"after backward(root={root}, role={role})")

    def finish(self, st):
        if st.nograd_ctx is not None:
            st.nograd_ctx.__exit__(None, None, None)
            st.nograd_ctx = None
        if st.retain_ctx is not None:
            st.retain_ctx.__exit__(None, None, None)
            st.retain_ctx = None
