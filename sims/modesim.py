"""modesim - C07: requires_grad propagation and grad-mode contexts behave like a stack.

The driver is a recursive interpreter that executes generated block structures with
REAL `with` statements, so exception propagation through k enclosing contexts is the
interpreter's own.  Faults: F1 rejected calls whose exception escapes the body, F2 kernel
faults inside ops inside bodies, F3 plain raise in a body; caught 1-6 levels up.

Oracle (ModeStack): after every event the behavioural mode probes equal the model (a
context restores what was in force when it was ENTERED); every op result has
requires_grad == enabled AND any(operand.requires_grad); no-grad results carry no
grad_fn, are leaves, refuse backward and never acquire .grad; int tensors cannot be
made to require grad; after a sweep leaves keep gradients and non-root interiors keep
theirs iff marked / computed-and-differentiated under retain_grads.

Not asserted: mixed retain cases (computed under retain_grads but differentiated outside
or the reverse), flags of leaves CREATED inside no_grad, non-LIFO exits.
"""
import numpy as np

from simkit import ops
from simkit.core import RunState, Sim, StopRun, enc, dec, small_values
from simkit.world import World, SEAM, SimFault, SimBodyError, SimExit, quiet

MODE_OPS = [n for n in ops.ALL_OPS if n not in ("batch_norm",)]


class ModeSim(Sim):
    PROP = "C07"
    NAME = "modesim"
    QUICK_RUNS = 20000
    THOROUGH_RUNS = 500000
    MAX_EVENTS = 60
    PROBES = ["unwound_through_2plus_contexts", "ctx_constructed_in_other_mode", "same_ctx_object_entered_twice", "nested_same_kind",
              "flag_flip_between_build_and_backward", "step_inside_user_ctx", "kernel_fault_inside_ctx", "body_raise", "rejected_call_escapes",
              "backward_inside_no_grad", "interior_kept_marked", "interior_kept_retain_ctx", "interior_released", "nograd_result",
              "int_requires_grad_refused", "nonleaf_flag_change_refused", "backward_on_nograd_refused", "mixed_retain_case_not_asserted",
              "exit_by_exception", "exit_normal", "depth3plus", "module_freeze_unfreeze",
              "floating_context_entered", "contexts_of_different_kinds_overlap_without_nesting", "same_kind_non_lifo_not_asserted",
              "initialiser_call_inside_contexts", "initialiser_call_refused"]
    RULE = ("one run = a generated block tree of no_grad/retain_grads contexts (constructed possibly earlier and in another mode than where "
            "entered; exits normal or by exception caught 1-6 levels up) with leaf/op/flag/backward/step events inside; distinct = hash of the "
            "block tree with event kinds and exit modes; non-trivial = at least one context was left")
    ASSUMPTIONS = ["the mode is observed behaviourally (ops on a requires-grad probe leaf; a tiny x->y->z graph differentiated now)",
                   "ops used here are ones whose own backward is sound on this tree (per-op VJPs are C01/C02)"]

    def knobs(self, rng, tier):
        return {
            "max_events": rng.randint(10, 60),
            "p_enter": rng.choice([0.15, 0.25, 0.35]),
            "p_raise": rng.choice([0.0, 0.05, 0.12]),
            "p_fault": rng.choice([0.0, 0.04, 0.1]),
            "early_ctx": rng.random() < 0.6,        # construct contexts ahead of use
            "reenter": rng.random() < 0.4,
            "ops": sorted(rng.sample(MODE_OPS, rng.randint(5, len(MODE_OPS)))),
            "ints": rng.random() < 0.5,
            "floating": rng.random() < 0.4,
        }

    # ------------------------------------------------------------------ state
    def start(self, knobs):
        st = RunState(knobs)
        st.world = World()
        SG = st.SG = st.world.SG
        st.T, st.meta = {}, {}
        st.next_id = 0
        st.m_grad, st.m_retain = True, False
        st.stack = []           # model stack: (ctx id, kind)
        st.depth = 0
        st.ctxs = {}
        st.next_ctx = 0
        st.nograd = set()       # ids of no-grad results that must never acquire .grad
        st.retained = set()
        st.opt = None
        st.left = 0
        st.px = None            # behavioural probes, built lazily while the mode is the default one
        st.open = []            # every open context in enter order: ("w", ctx id, kind) for with-blocks, ("f", fid, kind) for floating ones
        st.floats = {}          # fid -> dict(obj, kind, saved)
        st.next_float = 0
        st.messy = {"no_grad": False, "retain_grads": False}   # a same-kind non-LIFO exit happened: that kind is resynchronised, not asserted
        st.caught = []
        return st

    def _build_probes(self, st):
        SG = st.SG
        try:
            st.px = SG.Tensor(np.array([1.0, 2.0]), requires_grad=True)
            st.py = st.px * 2.0
            st.pz = st.py * 3.0
            ok = st.px.requires_grad and st.py.requires_grad and st.pz.requires_grad
        except Exception as e:
            st.px = None
            st.fail("C07.propagation", f"building x -> x*2 -> *3 over a requires-grad leaf in the default mode raised {type(e).__name__}: {e}")
        if not ok:
            st.px = None
            st.fail("C07.propagation", "in the default (enabled) mode, an op on a requires-grad leaf and a constant gave a result that does not require grad")

    # ------------------------------------------------------------------ generation
    def gen(self, rng, st):
        kn = st.knobs
        r = rng.random()
        d = st.depth
        if d > 0:
            if r < 0.13:
                return {"k": "exit"}
            if r < 0.13 + kn["p_raise"]:
                return {"k": "raise", "kind": rng.choice(["body", "body", "exit"])}
        r = rng.random()
        if r < kn["p_enter"] and d < 6:
            usable = sorted(st.ctxs)
            if not kn["reenter"]:
                usable = [c for c in usable if c not in [s[0] for s in st.stack]]
            if usable and (kn["early_ctx"] and rng.random() < 0.7):
                return {"k": "enter", "ctx": rng.choice(usable), "catch": rng.random() < 0.4}
            cid = st.next_ctx
            return {"k": "ctx_new", "ctx": cid, "kind": rng.choice(["no_grad", "no_grad", "retain_grads"])}
        if r < kn["p_enter"] + 0.05:
            return {"k": "ctx_new", "ctx": st.next_ctx, "kind": rng.choice(["no_grad", "retain_grads"])}
        if kn.get("floating") and r < kn["p_enter"] + 0.13:
            # contexts that overlap WITHOUT nesting: a generator holding a with-block across yields, ExitStack, explicit enter/exit
            if st.floats and rng.random() < 0.55:
                return {"k": "float_exit", "fid": rng.choice(sorted(st.floats))}
            if len(st.floats) < 3:
                return {"k": "float_enter", "fid": st.next_float, "kind": rng.choice(["no_grad", "retain_grads"])}
        if r < kn["p_enter"] + 0.17 and st.T:
            fl = [i for i in sorted(st.T) if st.T[i].data.dtype.kind == "f"]
            if fl:
                # an initialiser call from inside whatever contexts are open (valid, refused, or interrupted): it is not a mode operation
                return {"k": "init_call", "t": rng.choice(fl), "fn": rng.choice(["uniform_", "normal_", "zeros_", "xavier_uniform_", "xavier_normal_", "kaiming_uniform_", "constant_"]),
                        "bad": rng.choice([None, None, "std_neg", "gain_neg", "nan_bound"]), "escape": rng.random() < 0.3,
                        "fault": ({"kind": rng.choice(["alloc", "interrupt", "exit"]), "seam": "line", "at": rng.randint(1, 30)} if rng.random() < kn["p_fault"] * 3 else None)}
        leaves = [i for i, m in st.meta.items() if m["kind"] == "leaf"]
        if len(leaves) < 2 or rng.random() < 0.08:
            return self._gen_leaf(rng, st)
        r = rng.random()
        ids = sorted(st.T)
        if r < 0.40:
            pool = [ops.Ref(i, st.T[i]) for i in ids if st.T[i].data.dtype.kind == "f"]
            pool = [p for p in pool if p.finite and p.mag < 64]
            got = ops.gen_op(rng, pool, kn["ops"], {})
            if got is not None:
                name, ins, args = got
                nout = args.get("n", 1) if name == "unbind" else 1
                ev = {"k": "op", "op": name, "in": ins, "args": args, "out": list(range(st.next_id, st.next_id + nout))}
                if rng.random() < kn["p_fault"]:
                    ev["fault"] = {"kind": rng.choice(["alloc", "interrupt", "exit"]), "at": rng.randint(1, 2)}
                    if rng.random() < 0.5:
                        ev["fault"].update(seam="line", at=rng.randint(1, 80))
                return ev
        if r < 0.58:
            rg = [i for i in ids if st.T[i].requires_grad]
            ng = [i for i in ids if not st.T[i].requires_grad]
            if rg and rng.random() < 0.85:
                root = rng.choice(rg)
                t = st.T[root]
                g = None if (t.data.size == 1 and rng.random() < 0.5) else enc(small_values(rng, t.data.shape, np.float64, -2, 2))
                return {"k": "backward", "root": root, "g": g}
            if ng:
                return {"k": "backward", "root": rng.choice(ng), "g": None, "escape": rng.random() < 0.4}
        if r < 0.68:
            i = rng.choice(ids)
            return {"k": "set_rg", "t": i, "v": rng.random() < 0.5, "escape": rng.random() < 0.2}
        if r < 0.74:
            return {"k": "retain_grad", "t": rng.choice(ids)}
        if r < 0.79:
            return {"k": "detach", "t": rng.choice(ids), "id": st.next_id}
        if r < 0.83:
            return {"k": "numpy", "t": rng.choice(ids)}
        if r < 0.86:
            return {"k": "module_flag", "ts": sorted(rng.sample(ids, min(len(ids), rng.randint(1, 3)))), "how": rng.choice(["freeze", "unfreeze"])}
        if r < 0.92:
            if st.opt is None:
                c = [i for i in leaves if st.T[i].data.dtype.kind == "f"]
                if c:
                    return {"k": "opt_new", "params": sorted(rng.sample(c, rng.randint(1, len(c)))), "kind": rng.choice(["SGD", "Adam", "AdamW"])}
            else:
                return {"k": "opt_step"}
        return self._gen_leaf(rng, st)

    def _gen_leaf(self, rng, st):
        kn = st.knobs
        shape = rng.choice([(2, 3), (3,), (2, 2), (1, 3), (3, 3), ()])
        cast = None
        if kn["ints"] and rng.random() < 0.2:
            vals = np.array([rng.randint(-3, 3) for _ in range(int(np.prod(shape)) if shape else 1)], dtype=np.int32).reshape(shape)
            # every non-floating dtype: signed / unsigned integers, booleans (masks), complex numbers
            cast = rng.choice([None, None, "i8", "u1", "bool", "c8", "c16", "i2"])
        else:
            vals = small_values(rng, shape, np.float32 if rng.random() < 0.2 else np.float64, -2, 2)
            if rng.random() < 0.05:
                cast = "f2"
        ev = {"k": "leaf", "id": st.next_id, "data": enc(vals), "rg": rng.random() < 0.6}
        if cast:
            ev["cast"] = cast
        return ev

    # ------------------------------------------------------------------ interpreter
    def execute(self, st, source):
        self._observed_mode(st)          # builds the behavioural probes while the mode is the default one
        self._block(st, source, 0)
        self.finish(st)

    def _block(self, st, source, depth):
        while True:
            st.depth = depth
            ev = source.next(st)
            if ev is None:
                return
            st.n_events += 1
            k = ev["k"]
            if k == "exit":
                if depth == 0:
                    st.skipped += 1
                    continue
                st.sig.append(")")
                return
            if k == "raise":
                if depth == 0:
                    st.skipped += 1
                    continue
                st.faults["F3.body_raise"] += 1
                st.probes["body_raise"] += 1
                st.sig.append("!")
                e = (SimBodyError if ev.get("kind", "body") == "body" else SimExit)("raised by user code inside a with body")
                e._sim_escape = True
                e._levels = 0
                raise e
            if k == "enter":
                self._enter(st, source, ev, depth)
                continue
            self.apply(st, ev)

    def _enter(self, st, source, ev, depth):
        c = st.ctxs.get(ev["ctx"])
        if c is None:
            st.skipped += 1
            return
        kind = c["kind"]
        if (st.m_grad, st.m_retain) != c["made_in"]:
            st.probes["ctx_constructed_in_other_mode"] += 1
        if any(s[0] == ev["ctx"] for s in st.stack):
            st.probes["same_ctx_object_entered_twice"] += 1
        if any(s[1] == kind for s in st.stack):
            st.probes["nested_same_kind"] += 1
        if depth + 1 >= 3:
            st.probes["depth3plus"] += 1
        saved = (st.m_grad, st.m_retain)
        entry = ("w", ev["ctx"], kind, object())
        st.open.append(entry)
        st.stack.append((ev["ctx"], kind))
        st.sig.append("(" + kind[0] + ("c" if ev["catch"] else ""))
        escaped = None
        body_exc = None
        try:
            with c["obj"]:
                try:
                    if kind == "no_grad":
                        st.m_grad = False
                    else:
                        st.m_retain = True
                    self._check_mode(st, f"inside {kind} body (depth {depth + 1})")
                    self._block(st, source, depth + 1)
                except BaseException as e:
                    body_exc = e
                    raise
        except BaseException as e:
            if e is not body_exc:
                # raised by __enter__/__exit__ themselves
                st.fail("C07.ctx_protocol", f"entering/leaving {kind} raised {type(e).__name__}: {e}")
            if not getattr(e, "_sim_escape", False):
                raise
            escaped = e
        st.stack.pop()
        st.depth = depth
        if kind == "no_grad":
            st.m_grad = saved[0]
        else:
            st.m_retain = saved[1]
        self._closed(st, entry)
        st.left += 1
        st.nontrivial = True
        st.probes["exit_by_exception" if escaped is not None else "exit_normal"] += 1
        self._check_mode(st, f"after leaving {kind} ({'by exception' if escaped is not None else 'normally'}, back at depth {depth})")
        if escaped is not None:
            escaped._levels += 1
            if ev["catch"] or depth == 0:
                if escaped._levels >= 2:
                    st.probes["unwound_through_2plus_contexts"] += 1
                return
            raise escaped

    def _closed(self, st, entry):
        """bookkeeping when a context (with-block or floating) is left; the model variable has already been set to the value saved at
        ITS enter.  Overlap of different kinds is plain: they govern different modes.  A same-kind non-LIFO exit is not asserted
        (a shared per-kind stack would be a legitimate design): that kind is resynchronised from the system until none is open."""
        kind = entry[2]
        idx = next(n for n, e in enumerate(st.open) if e is entry)
        later_same = any(e[2] == kind for e in st.open[idx + 1:])
        later_other = any(e[2] != kind for e in st.open[idx + 1:])
        del st.open[idx]
        if later_same:
            st.messy[kind] = True
            st.ever_messy = True
            st.probes["same_kind_non_lifo_not_asserted"] += 1
        elif later_other:
            st.probes["contexts_of_different_kinds_overlap_without_nesting"] += 1
        if st.messy[kind]:
            obs = self._observed_mode(st)
            if kind == "no_grad":
                st.m_grad = obs[0]
            else:
                st.m_retain = obs[1]
            if not any(e[2] == kind for e in st.open):
                st.messy[kind] = False

    # ------------------------------------------------------------------ oracle pieces
    def _observed_mode(self, st):
        SG = st.SG
        if st.px is None:
            self._build_probes(st)
        try:
            return self._observed_mode_inner(st)
        except StopRun:
            raise
        except Exception as e:
            st.fail("C07.mode", f"observing the mode (op on a requires-grad leaf; backward of a tiny graph) raised {type(e).__name__}: {e}")

    def _observed_mode_inner(self, st):
        SG = st.SG
        with quiet():
            y = st.px * 2.0
            grad_on = bool(y.requires_grad)
            st.px.zero_()
            st.pz.backward(SG.Tensor(np.ones(2)))
            retain = st.py.grad is not None
            if grad_on:
                y2 = st.px * 2.0
                z2 = y2 * 3.0
                z2.backward(SG.Tensor(np.ones(2)))
                retain2 = y2.grad is not None
                if retain2 != retain:
                    st.fail("C07.mode", f"retain mode inconsistent between a pre-built ({retain}) and a fresh ({retain2}) probe graph")
        return grad_on, retain

    def _check_mode(self, st, where):
        obs = self._observed_mode(st)
        exp = (st.m_grad, st.m_retain)
        st.obs("mode", obs)
        if obs != exp:
            st.fail("C07.mode", f"{where}: observed (grad enabled, retain all) = {obs}, the stack model says {exp}",
                    observed=list(obs), expected=list(exp), depth=st.depth)

    def _check_nograd(self, st, where):
        for i in sorted(st.nograd):
            t = st.T.get(i)
            if t is None:
                continue
            with quiet():
                g = t.grad
            if g is not None:
                st.fail("C07.nograd_result_acquired_grad", f"{where}: tensor {i} does not require grad but has a .grad", tensor=i)

    def _escape(self, st, e, what):
        """let a library/injected exception propagate out of the enclosing with-bodies"""
        if st.depth == 0:
            return
        try:
            e._sim_escape = True
            e._levels = 0
        except Exception:
            return
        st.probes[what] += 1
        raise e

    def _reach(self, st, root):
        seen, stack = set(), [root]
        while stack:
            i = stack.pop()
            if i in seen:
                continue
            seen.add(i)
            stack.extend(st.meta[i].get("tracked_inputs", []))
        return seen

    # ------------------------------------------------------------------ events
    def apply(self, st, ev):
        k = ev["k"]
        st.sig.append(k[:3])
        getattr(self, "_ev_" + k)(st, ev)
        self._check_mode(st, f"after {k}")

    def _ev_float_enter(self, st, ev):
        sg = st.SG.sg
        kind = ev["kind"]
        obj = sg.no_grad() if kind == "no_grad" else sg.retain_grads()
        saved = st.m_grad if kind == "no_grad" else st.m_retain
        try:
            obj.__enter__()
        except Exception as e:
            st.fail("C07.ctx_protocol", f"entering {kind} raised {type(e).__name__}: {e}")
        entry = ("f", ev["fid"], kind, object())
        st.open.append(entry)
        st.floats[ev["fid"]] = {"obj": obj, "kind": kind, "saved": saved, "entry": entry}
        st.next_float = max(st.next_float, ev["fid"] + 1)
        if kind == "no_grad":
            st.m_grad = False
        else:
            st.m_retain = True
        st.probes["floating_context_entered"] += 1

    def _ev_float_exit(self, st, ev, final=False):
        f = st.floats.pop(ev["fid"], None)
        if f is None:
            st.skipped += 1
            return
        try:
            f["obj"].__exit__(None, None, None)
        except Exception as e:
            st.fail("C07.ctx_protocol", f"leaving {f['kind']} raised {type(e).__name__}: {e}")
        if f["kind"] == "no_grad":
            st.m_grad = f["saved"]
        else:
            st.m_retain = f["saved"]
        self._closed(st, f["entry"])
        st.left += 1
        st.nontrivial = True

    def _ev_init_call(self, st, ev):
        SG = st.SG
        t = st.T.get(ev["t"])
        if t is None or t.data.dtype.kind != "f":
            st.skipped += 1
            return
        init = SG.init
        fn, bad = ev["fn"], ev.get("bad")
        f = getattr(init, fn)
        args, kw = [t], {}
        if fn == "constant_":
            args.append(0.5)
        if bad == "std_neg" and fn == "normal_":
            kw = {"mean": 0.0, "std": -1.0}
        elif bad == "gain_neg" and fn.startswith("xavier"):
            kw = {"gain": -1.0}
        elif bad == "nan_bound" and fn == "uniform_":
            args += [float("nan"), 1.0]
        rg = bool(t.requires_grad)
        try:
            with quiet(), SEAM.armed(ev.get("fault")):
                f(*args, **kw)
            st.probes["initialiser_call_inside_contexts"] += 1
        except SimFault as e:
            st.faults["F2.init_line_" + ev["fault"]["kind"]] += 1
            st.caught.append(e)
            self._check_mode(st, f"after {fn} was interrupted by an injected fault")
            if ev.get("escape"):
                self._escape(st, e, "kernel_fault_escapes")
        except Exception as e:
            # refused (rank < 2 for xavier/kaiming, std < 0, ...): the program catches it, or lets it unwind the open contexts
            st.probes["initialiser_call_refused"] += 1
            st.caught.append(e)
            del st.caught[:-3]
            self._check_mode(st, f"after {fn} refused its arguments ({type(e).__name__})")
            if ev.get("escape"):
                self._escape(st, e, "rejected_call_escapes")
        if bool(t.requires_grad) != rg:
            st.fail("C07.leaf_flag", f"{fn} changed requires_grad of the tensor it filled ({rg} -> {t.requires_grad})")

    def _ev_ctx_new(self, st, ev):
        sg = st.SG.sg
        obj = sg.no_grad() if ev["kind"] == "no_grad" else sg.retain_grads()
        st.ctxs[ev["ctx"]] = {"obj": obj, "kind": ev["kind"], "made_in": (st.m_grad, st.m_retain)}
        st.next_ctx = max(st.next_ctx, ev["ctx"] + 1)

    def _ev_leaf(self, st, ev):
        SG = st.SG
        data = dec(ev["data"])
        if ev.get("cast"):
            data = data.astype({"bool": np.bool_, "i8": np.int64, "i2": np.int16, "u1": np.uint8, "c8": np.complex64, "c16": np.complex128, "f2": np.float16}[ev["cast"]])
            st.probes["leaf_dtype_" + ev["cast"]] += 1
        is_int = data.dtype.kind != "f"
        try:
            t = SG.Tensor(data, requires_grad=ev["rg"])
        except Exception as e:
            if is_int and ev["rg"]:
                st.probes["int_requires_grad_refused"] += 1
                return
            st.fail("C07.leaf_creation", f"creating a float leaf (requires_grad={ev['rg']}) raised {type(e).__name__}: {e}")
        if is_int and ev["rg"] and st.m_grad:
            st.fail("C07.int_requires_grad", "an integer tensor was created with requires_grad=True while gradient mode is enabled")
        if is_int and t.requires_grad:
            st.fail("C07.int_requires_grad", "an integer tensor requires grad")
        if st.m_grad and not is_int and bool(t.requires_grad) != bool(ev["rg"]):
            st.fail("C07.leaf_flag", f"leaf created with requires_grad={ev['rg']} in enabled mode reports {t.requires_grad}")
        i = ev["id"]
        st.T[i] = t
        st.meta[i] = {"kind": "leaf", "int": is_int, "tracked_inputs": []}
        st.next_id = max(st.next_id, i + 1)

    def _ev_op(self, st, ev):
        SG = st.SG
        if any(i not in st.T for i in ev["in"]):
            st.skipped += 1
            return
        xs = [st.T[i] for i in ev["in"]]
        flags = [bool(x.requires_grad) for x in xs]
        fault = ev.get("fault")
        try:
            with quiet(), SEAM.armed(fault):
                res = ops.as_list(ops.apply_op(SG, ev["op"], xs, ev["args"]))
        except SimFault as e:
            SEAM.disarm()
            st.faults[f"F2.{fault.get('seam', 'kernel')}_{fault['kind']}"] += 1
            if st.depth > 0:
                st.probes["kernel_fault_inside_ctx"] += 1
            self._check_mode(st, "after an op aborted by an injected kernel fault")
            self._escape(st, e, "kernel_fault_escapes")
            return
        except Exception as e:
            SEAM.disarm()
            st.notes["op_rejected"] += 1
            return
        SEAM.disarm()
        want = st.m_grad and any(flags)
        for k, (i, t) in enumerate(zip(ev["out"], res)):
            if bool(t.requires_grad) != want:
                st.fail("C07.propagation", f"{ev['op']}: result requires_grad={t.requires_grad}, expected {want} "
                        f"(mode enabled={st.m_grad}, operand flags={flags})", op=ev["op"])
            if not want:
                if t.grad_fn is not None or not t.is_leaf:
                    st.fail("C07.nograd_result", f"{ev['op']}: a result that does not require grad has grad_fn={t.grad_fn} is_leaf={t.is_leaf}")
                st.nograd.add(i)
                st.probes["nograd_result"] += 1
            else:
                if t.grad_fn is None or t.is_leaf:
                    st.fail("C07.grad_result", f"{ev['op']}: a result that requires grad has grad_fn={t.grad_fn} is_leaf={t.is_leaf}")
            st.T[i] = t
            st.meta[i] = {"kind": "node", "int": False, "tracked_inputs": list(ev["in"]) if want else [], "built_retain": st.m_retain,
                          "flags_at_build": dict(zip(ev["in"], flags))}
            st.next_id = max(st.next_id, i + 1)

    def _ev_set_rg(self, st, ev):
        i = ev["t"]
        if i not in st.T:
            st.skipped += 1
            return
        t = st.T[i]
        m = st.meta[i]
        nonleaf = bool(t.requires_grad) and t.grad_fn is not None
        try:
            t.requires_grad = ev["v"]
        except Exception as e:
            if nonleaf:
                st.probes["nonleaf_flag_change_refused"] += 1
            elif m["int"] and ev["v"]:
                st.probes["int_requires_grad_refused"] += 1
            else:
                st.fail("C07.flag_setter", f"setting requires_grad={ev['v']} on a {'int' if m['int'] else 'float'} leaf raised {type(e).__name__}: {e}")
            if ev.get("escape"):
                self._check_mode(st, "after a refused flag change")
                self._escape(st, e, "rejected_call_escapes")
            return
        if nonleaf:
            st.fail("C07.flag_setter", "requires_grad of a non-leaf tensor was changed without an error", tensor=i)
        if m["int"] and ev["v"]:
            st.fail("C07.int_requires_grad", "requires_grad=True was accepted on an integer tensor", tensor=i)
        if bool(t.requires_grad) != bool(ev["v"]):
            st.fail("C07.flag_setter", f"requires_grad reads {t.requires_grad} after being set to {ev['v']}", tensor=i)
        if ev["v"]:
            st.nograd.discard(i)
        m["flipped"] = True

    def _ev_retain_grad(self, st, ev):
        i = ev["t"]
        if i not in st.T:
            st.skipped += 1
            return
        t = st.T[i]
        try:
            t.retain_grad()
        except Exception as e:
            if t.requires_grad:
                st.fail("C07.retain_grad", f"retain_grad() on a tensor that requires grad raised {type(e).__name__}: {e}")
            return
        if not t.requires_grad:
            st.fail("C07.retain_grad", "retain_grad() accepted on a tensor that does not require grad", tensor=i)
        st.retained.add(i)

    def _ev_detach(self, st, ev):
        i = ev["t"]
        if i not in st.T:
            st.skipped += 1
            return
        d = st.T[i].detach()
        if d.requires_grad or d.grad_fn is not None or not d.is_leaf:
            st.fail("C07.detach", f"detach() result has requires_grad={d.requires_grad} grad_fn={d.grad_fn}")
        j = ev["id"]
        st.T[j] = d
        st.meta[j] = {"kind": "leaf", "int": d.data.dtype.kind != "f", "tracked_inputs": []}
        st.nograd.add(j)
        st.next_id = max(st.next_id, j + 1)

    def _ev_numpy(self, st, ev):
        i = ev["t"]
        if i not in st.T:
            st.skipped += 1
            return
        t = st.T[i]
        try:
            t.numpy()
        except Exception:
            if not t.requires_grad:
                st.fail("C07.numpy_guard", "numpy() raised on a tensor that does not require grad", tensor=i)
            return
        if t.requires_grad:
            st.fail("C07.numpy_guard", "numpy() accepted on a tensor that requires grad", tensor=i)

    def _ev_module_flag(self, st, ev):
        """Module.freeze()/unfreeze() is one more way of toggling requires_grad: the same guards apply (only float leaves can be made to
        require grad; the flag of a non-leaf cannot be changed)"""
        SG = st.SG
        ids = [i for i in ev["ts"] if i in st.T]
        if not ids:
            st.skipped += 1
            return

        class Holder(SG.nn.Module):
            def __init__(self):
                super().__init__()
        m = Holder()
        params = []
        for n, i in enumerate(ids):
            p = SG.nn.Parameter(st.T[i])          # shares data, flags and grad_fn with the wrapped tensor
            setattr(m, f"p{n}", p)
            params.append((i, p))
        want = ev["how"] == "unfreeze"
        before = [(bool(p.requires_grad), p.grad_fn is not None, p.data.dtype.kind) for _, p in params]
        try:
            getattr(m, ev["how"])()
        except Exception:
            pass            # refusing (an int parameter, a non-leaf) is fine; what matters is the state afterwards
        st.probes["module_freeze_unfreeze"] += 1
        for (i, p), (rg0, nonleaf0, kind) in zip(params, before):
            if kind != "f" and p.requires_grad:
                st.fail("C07.int_requires_grad", f"Module.{ev['how']}() left an integer tensor with requires_grad=True", tensor=i)
            if nonleaf0 and rg0 and not p.requires_grad and p.grad_fn is not None:
                st.fail("C07.flag_setter", f"Module.{ev['how']}() switched requires_grad off on a non-leaf tensor (it still carries a backward function)", tensor=i)
            if not p.requires_grad and p.grad_fn is not None:
                st.fail("C07.nograd_result", f"after Module.{ev['how']}() a tensor that does not require grad carries a backward function", tensor=i)

    def _ev_opt_new(self, st, ev):
        ids = [i for i in ev["params"] if i in st.T]
        if not ids:
            st.skipped += 1
            return
        cls = getattr(st.SG.optim, ev["kind"])
        st.opt = st.must("C07.harness_optimizer", f"constructing {ev['kind']} over float leaves (some of them not requiring grad)", cls, [st.T[i] for i in ids], lr=0.01)

    def _ev_opt_step(self, st, ev):
        if st.opt is None:
            st.skipped += 1
            return
        if st.depth > 0:
            st.probes["step_inside_user_ctx"] += 1
        try:
            with quiet():
                st.opt.step()
        except SimFault:
            raise
        except Exception:
            st.notes["step_raised"] += 1

    def _ev_backward(self, st, ev):
        SG = st.SG
        root = ev["root"]
        if root not in st.T:
            st.skipped += 1
            return
        t = st.T[root]
        g = None if ev["g"] is None else dec(ev["g"])
        if not t.requires_grad:
            try:
                with quiet():
                    t.backward(None if g is None else SG.Tensor(g))
            except Exception as e:
                st.probes["backward_on_nograd_refused"] += 1
                self._check_nograd(st, "after a refused backward")
                if ev.get("escape"):
                    self._check_mode(st, "after a refused backward")
                    self._escape(st, e, "rejected_call_escapes")
                return
            st.fail("C07.backward_on_nograd", "backward() was accepted on a tensor that does not require grad", tensor=root)
        if (g is None and t.data.size != 1) or (g is not None and g.shape != t.data.shape):
            st.skipped += 1
            return
        if not st.m_grad:
            st.probes["backward_inside_no_grad"] += 1
        reach = self._reach(st, root)
        if any(st.meta[i].get("flipped") for i in reach):
            st.probes["flag_flip_between_build_and_backward"] += 1
        try:
            with quiet():
                t.backward(None if g is None else SG.Tensor(g))
        except Exception as e:
            st.notes["backward_raised"] += 1
            return
        swept_retain = st.m_retain
        for i in sorted(reach):
            x = st.T[i]
            m = st.meta[i]
            with quiet():
                gr = x.grad
            if m["kind"] == "leaf" or x.grad_fn is None:
                # a leaf receives a gradient only through consumers that were built while it required grad
                # (a flag switched on AFTER the graph was built does not make the leaf part of it)
                fed = any(st.meta[c].get("flags_at_build", {}).get(i) for c in reach if i in st.meta[c].get("tracked_inputs", []))
                if x.requires_grad and fed and gr is None and i != root:
                    st.fail("C07.leaf_keeps_grad", f"leaf {i} requires grad and is reachable from the root but has no .grad after backward", leaf=i)
                continue
            if i == root:
                continue            # the statement excepts the root
            marked = i in st.retained
            built = m.get("built_retain", False)
            if marked or (built and swept_retain):
                st.probes["interior_kept_marked" if marked else "interior_kept_retain_ctx"] += 1
                if gr is None:
                    st.fail("C07.interior_release", f"interior tensor {i} ({'marked with retain_grad' if marked else 'computed and differentiated under retain_grads'}) "
                            "lost its gradient after backward", tensor=i)
            elif not built and not swept_retain:
                st.probes["interior_released"] += 1
                if gr is not None:
                    st.fail("C07.interior_release", f"interior tensor {i} (not marked, no retain_grads involved) still holds a gradient after backward", tensor=i)
            else:
                st.probes["mixed_retain_case_not_asserted"] += 1
        self._check_nograd(st, "after backward")

    def finish(self, st):
        for fid in sorted(st.floats, reverse=True):
            self._ev_float_exit(st, {"fid": fid})
            self._check_mode(st, "after leaving a floating context at the end of the run")
        self._check_nograd(st, "at the end of the run")
        if (st.m_grad, st.m_retain) != (True, False) and not getattr(st, "ever_messy", False):
            st.fail("C07.harness", "model stack not unwound at the end of a run")
        self._check_mode(st, "after all contexts were left")
