"""trainsim - C20: Trainer.fit performs one optimisation step per batch in the right mode.

World: the real Trainer and Evaluator, a real model built from real layers (Linear,
BatchNorm1d, Dropout, activations - so mode matters) plus a transparent PROBE layer that
records self.training and the behavioural grad mode at every forward; the real optimizer
and loss wrapped in spies (zero_grad/step/__call__ logged with event sequence numbers,
model.training, parameter / gradient / running-statistic digests; the loss tensor's
backward is wrapped on the instance); loaders either the repo's DataLoader (real) or a
plain re-iterable list (stub) - both classes are run so a loader defect is not blamed on the
Trainer; pkbar/matplotlib/sklearn are stubs.  Configurations: epochs 0-3, 1-4 train
batches, validation loader absent / 1-3 batches, evaluator absent / each mode, callbacks
absent / logging / adversarial (flip train()/eval(): F7).  Faults (separate run class):
kernel fault in a forward (F2), exception in criterion / callback / transform (F3) - the
exception must propagate, and a SUBSEQUENT fault-free fit must satisfy the strict oracle.

Oracle (TrainerModel over the spy log): #step = epochs x len(train_loader); between two
consecutive steps exactly one backward of a loss the criterion returned, started with every
trainable gradient zero/absent, gradients unchanged between the end of that backward and
the step; every training forward saw training=True; every validation/test forward saw
training=False and grad mode off; parameters and running statistics identical across each
validation/test phase; global grad mode after fit/test as before; history has one entry per
epoch per key, val_ keys iff a validation loader was given; epoch loss = mean of that epoch's
batch losses; accuracy = fraction correct recomputed from recorded outputs/labels.

Not asserted: empty loaders, batch size 1, progress-bar calls, plot/report.
"""
import numpy as np

from simkit.core import RunState, Sim, adigest
from simkit.world import World, SEAM, SimFault, SimBodyError, quiet


class TrainSim(Sim):
    PROP = "C20"
    NAME = "trainsim"
    QUICK_RUNS = 10000
    THOROUGH_RUNS = 100000
    MAX_EVENTS = 6
    RUN_TIMEOUT = 120
    PROBES = ["epochs_0", "epochs_3", "validation_loader", "no_validation", "evaluator_none", "evaluator_binary", "evaluator_multi_class",
              "evaluator_categorical", "callback_adversarial_mode_flip", "callback_logging", "real_dataloader", "list_loader", "model_with_batchnorm",
              "model_with_dropout", "second_fit_after_fault", "fault_in_forward", "fault_in_criterion", "fault_in_callback", "fault_in_transform",
              "test_call", "fit_twice", "adam", "sgd_momentum", "optimizer_param_outside_model", "callback_flips_child_layers", "mixed_mode_tree_before_call",
              "callback_grows_loader_between_epochs", "fault_in_val_criterion", "fault_in_epoch_cb", "fault_in_line", "fault_in_test",
              "evaluator_history", "evaluator_history_over_32767_samples", "evaluator_reset_mid_history", "evaluator_second_epoch"]
    RULE = ("one run = one trainer configuration (model layers, loss, optimizer, evaluator mode, loaders, callbacks) and 1-3 fit/test calls, "
            "optionally with an injected fault followed by a fault-free fit; distinct = (epochs, train batches, val batches, evaluator mode, "
            "callbacks, loader kind, model layer kinds, call sequence); non-trivial = at least one optimisation step was checked")
    REAL = Sim.REAL + ["Trainer, Evaluator, DataLoader, optimizers, losses, layers (all real)"]
    STUB = ["pkbar.Kbar (progress bar + its clock)", "matplotlib.pyplot", "sklearn.metrics", "list-based loader in the stub-loader run class",
            "spies around the real criterion/optimizer delegate every call"]

    def knobs(self, rng, tier):
        task = rng.choice(["multi-class", "multi-class", "binary", "categorical"])
        return {
            "max_events": 6, "np_seed": rng.randrange(2 ** 31), "task": task, "evaluator": rng.random() < 0.75, "d": rng.randint(2, 4), "h": rng.randint(2, 5),
            "c": rng.randint(2, 4), "bn": rng.random() < 0.5, "dropout": rng.choice([None, None, 0.3, 0.5]), "batch": rng.randint(2, 5),
            "n_train": rng.randint(1, 4), "n_val": rng.choice([0, 0, 1, 2, 3]), "remainder": rng.choice([0, 0, 1]), "loader": rng.choice(["real", "list"]),
            "opt": rng.choice(["SGD", "SGDm", "Adam", "AdamW"]), "callbacks": rng.choice(["none", "none", "log", "adversarial", "adversarial_child", "grow", "grow"]),
            "extra_param": rng.random() < 0.3, "tweak_between": rng.random() < 0.3,
            "faulty": rng.random() < 0.3, "acc_cb": rng.random() < 0.3,
        }

    # ------------------------------------------------------------------ world
    def start(self, knobs):
        st = RunState(knobs)
        st.world = World(knobs.get("np_seed", 1))
        st.SG = st.world.SG
        st.log = []
        st.seq = 0
        st.built = False
        st.n_calls = 0
        st.pending_fault = None
        st.after_fault = False
        st.n_done = 0
        st.kept = []           # exceptions the caller caught and keeps (their tracebacks keep the frames of the interrupted call alive)
        st.cur = {}            # phase -> current number of batches of that loader (callbacks may grow the data between epochs)
        return st

    def _emit(self, st, kind, **kw):
        st.seq += 1
        kw.update(k=kind, seq=st.seq)
        st.trace.append(kw)
        return kw

    def _digests(self, st):
        ps = st.model.parameters()
        pd = adigest(np.concatenate([np.asarray(p.data, dtype=np.float64).reshape(-1) for p in ps])) if ps else "none"
        bufs = []
        for m in st.bn_layers:
            bufs += [np.asarray(m.running_mean.data, dtype=np.float64).reshape(-1), np.asarray(m.running_var.data, dtype=np.float64).reshape(-1),
                     np.array([float(m.num_batches_tracked)])]
        return pd, (adigest(np.concatenate(bufs)) if bufs else "none")

    def _grads(self, st):
        out = []
        for p in st.model.parameters() + ([st.extra] if getattr(st, "extra", None) is not None else []):
            if p.requires_grad:
                g = p._grad
                out.append(None if g is None else np.asarray(g, dtype=np.float64).copy())
        return out

    def _grad_mode(self, st):
        return bool((st.mode_leaf * 1.0).requires_grad)

    def _build(self, st):
        SG, kn = st.SG, st.knobs
        nn = SG.nn
        sim = self
        st.trace = []
        st.mode_leaf = SG.Tensor(np.array([1.0]), requires_grad=True)

        class Probe(nn.Module):
            def __init__(self):
                super().__init__()

            def forward(self, x):
                sim._emit(st, "forward", training=bool(self.training) and all(bool(m.training) for m in st.model.submodules()) and bool(st.model.training),
                          any_training=bool(self.training) or any(bool(m.training) for m in st.model.submodules()) or bool(st.model.training),
                          model_training=bool(st.model.training), grad_mode=sim._grad_mode(st))
                return x
        out_dim = 1 if kn["task"] == "binary" else kn["c"]
        layers = [nn.Linear(kn["d"], kn["h"])]
        st.bn_layers = []
        if kn["bn"]:
            bn = nn.BatchNorm1d(kn["h"])
            layers.append(bn)
            st.bn_layers.append(bn)
            st.probes["model_with_batchnorm"] += 1
        layers.append(nn.ReLU())
        if kn["dropout"]:
            layers.append(nn.Dropout(kn["dropout"]))
            st.probes["model_with_dropout"] += 1
        layers.append(Probe())
        layers.append(nn.Linear(kn["h"], out_dim))
        if kn["task"] == "binary":
            layers.append(nn.Sigmoid())
        elif kn["task"] == "categorical":
            layers.append(nn.Softmax(1))
        st.model = nn.Sequential(*layers)
        real_loss = {"multi-class": nn.CrossEntropyLoss, "binary": nn.BCELoss, "categorical": nn.MSELoss}[kn["task"]]()
        O = SG.optim
        params = st.model.parameters()
        st.extra = None
        if kn.get("extra_param"):
            st.extra = SG.Tensor(np.array([1.5], dtype=np.float32), requires_grad=True)      # a learnable temperature of the loss
            params = params + [st.extra]
            st.probes["optimizer_param_outside_model"] += 1
        if kn["opt"] == "SGD":
            real_opt = O.SGD(params, lr=0.05)
        elif kn["opt"] == "SGDm":
            real_opt = O.SGD(params, lr=0.05, momentum=0.9)
            st.probes["sgd_momentum"] += 1
        else:
            real_opt = getattr(O, kn["opt"])(params, lr=0.01)
            st.probes["adam"] += 1

        class Criterion:
            def __call__(_, outputs, labels):
                if st.pending_fault == "criterion" or (st.pending_fault == "val_criterion" and sim._phase_now(st) == "val"):
                    st.pending_fault = None
                    st.faults["F3.criterion_raise"] += 1
                    raise SimBodyError("criterion raised")
                loss = real_loss(outputs, labels)
                if st.extra is not None:
                    loss = loss * st.extra.sum()
                rec = sim._emit(st, "loss", value=float(np.asarray(loss.data, dtype=np.float64).reshape(-1)[0]), requires_grad=bool(loss.requires_grad),
                                outputs=np.asarray(outputs.data, dtype=np.float64).copy(), labels=np.asarray(labels.data).copy())
                if loss.requires_grad:
                    orig = loss.backward

                    def backward(*a, **k):
                        sim._emit(st, "backward_start", loss_seq=rec["seq"], grads=sim._grads(st), model_training=bool(st.model.training))
                        r = orig(*a, **k)
                        sim._emit(st, "backward_end", loss_seq=rec["seq"], grads=sim._grads(st))
                        return r
                    loss.backward = backward
                return loss

        class Optimizer:
            def zero_grad(_):
                sim._emit(st, "zero_grad", model_training=bool(st.model.training))
                return real_opt.zero_grad()

            def step(_):
                pre = sim._grads(st)
                pd0 = sim._digests(st)[0]
                r = real_opt.step()
                sim._emit(st, "step", model_training=bool(st.model.training), grads=pre, grad_mode_after=sim._grad_mode(st), changed=pd0 != sim._digests(st)[0])
                return r
        st.criterion, st.optimizer = Criterion(), Optimizer()
        train = SG.train
        if kn["evaluator"]:
            def acc_cb(y_true, y_pred):
                if st.pending_fault == "epoch_cb":
                    # e.g. an AUC metric on a single-class epoch
                    st.pending_fault = None
                    st.faults["F3.evaluator_callback_raise"] += 1
                    raise SimBodyError("metric callback raised")
                return [("cb_metric", np.float64(len(y_true)))]
            st.evaluator = train.Evaluator(mode=kn["task"], epoch_callback=acc_cb if kn["acc_cb"] else None)
            st.probes["evaluator_" + kn["task"].replace("-", "_")] += 1
        else:
            st.evaluator = None
            st.probes["evaluator_none"] += 1
        st.trainer = train.Trainer(st.model, SG.sg)
        st.trainer.compile(st.criterion, st.optimizer, st.evaluator)
        # data
        rs = np.random.RandomState(kn["np_seed"] % (2 ** 31))
        def make(nb, phase):
            n = nb * kn["batch"] + (kn["remainder"] if kn["loader"] == "real" else 0)
            X = rs.randn(n, kn["d"]).astype(np.float32)
            if kn["task"] == "multi-class":
                y = rs.randint(0, kn["c"], size=n).astype(np.int64)
            elif kn["task"] == "binary":
                y = rs.randint(0, 2, size=n).astype(np.float32)
            else:
                y = np.eye(kn["c"], dtype=np.float32)[rs.randint(0, kn["c"], size=n)]
            return self._loader(st, X, y, nb, phase)
        st.cur = {"train": kn["n_train"], "val": kn["n_val"]}
        st.train_loader = make(kn["n_train"], "train")
        st.val_loader = make(kn["n_val"], "val") if kn["n_val"] else None
        st.test_loader = make(max(1, kn["n_val"]), "test")
        st.probes["real_dataloader" if kn["loader"] == "real" else "list_loader"] += 1
        st.built = True
        st.sig.append("|".join(str(kn.get(k)) for k in ("task", "evaluator", "bn", "dropout", "n_train", "n_val", "loader", "opt", "callbacks", "remainder", "extra_param", "tweak_between")))

    def _loader(self, st, X, y, nb, phase):
        SG, kn = st.SG, st.knobs
        sim = self
        b = kn["batch"]

        def to_batch(xb, yb):
            sim._emit(st, "batch", phase=phase, digests=sim._digests(st), model_training=bool(st.model.training))
            if st.pending_fault == "transform" and phase == "train":
                st.pending_fault = None
                st.faults["F3.transform_raise"] += 1
                raise SimBodyError("transform raised")
            return SG.Tensor(np.array(xb)), SG.Tensor(np.array(yb))
        if kn["loader"] == "real":
            return SG.data.DataLoader(X, y, b, transform=lambda loader, xb, yb: to_batch(xb, yb))

        class ListLoader:
            def __init__(self_):
                self_.X, self_.y = X, y

            def __len__(self_):
                return len(self_.y) // b

            def __iter__(self_):
                for j in range(len(self_.y) // b):
                    yield to_batch(self_.X[j * b:(j + 1) * b], self_.y[j * b:(j + 1) * b])
        return ListLoader()

    def _grow(self, st, loader, phase):
        """curriculum / progressive data: the callback appends one more batch to the loader it was handed"""
        b = st.knobs["batch"]
        loader.X = np.concatenate([np.asarray(loader.X), np.asarray(loader.X)[:b]])
        loader.y = np.concatenate([np.asarray(loader.y), np.asarray(loader.y)[:b]])
        st.cur[phase] += 1
        st.probes["callback_grows_loader_between_epochs"] += 1

    def _phase_now(self, st):
        for x in reversed(st.trace):
            if x["k"] == "batch":
                return x["phase"]
        return None

    # ------------------------------------------------------------------ generation
    def gen(self, rng, st):
        kn = st.knobs
        if st.n_calls == 0:
            st.n_calls += 1
            fault = None
            if kn["faulty"]:
                fault = rng.choice([{"where": "forward", "kind": rng.choice(["alloc", "interrupt", "exit"]), "at": rng.randint(1, 30)}, {"where": "criterion"},
                                    {"where": "callback"}, {"where": "transform"}, {"where": "val_criterion"}, {"where": "epoch_cb"},
                                    {"where": "line", "kind": rng.choice(["alloc", "interrupt", "exit"]), "at": int(10 ** rng.uniform(0, 4.3))},
                                    {"where": "line", "kind": rng.choice(["alloc", "interrupt", "exit"]), "at": int(10 ** rng.uniform(0, 4.3))}])
            return {"k": "fit", "epochs": rng.choice([0, 1, 1, 2, 3]), "fault": fault}
        if st.n_calls < (3 if kn["faulty"] else rng.choice([1, 2, 3])):
            st.n_calls += 1
            if rng.random() < 0.4:
                ev = {"k": "test"}
                if kn["faulty"] and rng.random() < 0.4:
                    ev["fault"] = {"where": "line", "kind": rng.choice(["alloc", "interrupt", "exit"]), "at": int(10 ** rng.uniform(0, 3.5))}
                return ev
            return {"k": "fit", "epochs": rng.choice([1, 1, 2]), "fault": None}
        if not getattr(st, "evalhist_done", False):
            st.evalhist_done = True
            if rng.random() < 0.35:
                # the Evaluator driven directly (a hand-written loop): step/compute/reset in any order; a small share of the
                # histories accumulate more samples between two compute() calls than a 16-bit counter holds
                big = rng.random() < 0.12
                ops = []
                for _ in range(rng.randint(2, 9)):
                    r = rng.random()
                    if r < 0.62:
                        n = rng.choice([9000, 14000, 17000, 21000]) if big and rng.random() < 0.8 else rng.randint(2, 40)
                        ops.append({"o": "step", "n": n, "seed": rng.randrange(2 ** 31), "p_ok": rng.choice([0.0, 0.3, 0.7, 0.95, 1.0]),
                                    "prefix": rng.choice([None, None, "val"])})
                    elif r < 0.9:
                        ops.append({"o": "compute", "prefix": rng.choice([None, "val"])})
                    else:
                        ops.append({"o": "reset"})
                ops.append({"o": "compute", "prefix": None})
                return {"k": "evalhist", "mode": rng.choice(["multi-class", "binary", "categorical"]), "c": rng.randint(2, 5),
                        "cb": rng.choice(["none", "none", "epoch", "step"]), "ops": ops}
        return None

    # ------------------------------------------------------------------ events
    def apply(self, st, ev):
        if not st.built:
            self._build(st)
        st.sig.append(ev["k"] + str(ev.get("epochs", "")) + ("F" if ev.get("fault") else ""))
        getattr(self, "_ev_" + ev["k"])(st, ev)

    def _callbacks(self, st, fault):
        kn = st.knobs
        sim = self

        def on_train(model, loader):
            sim._emit(st, "cb_train")
            if st.pending_fault == "callback":
                st.pending_fault = None
                st.faults["F3.callback_raise"] += 1
                raise SimBodyError("callback raised")
            if kn["callbacks"] == "adversarial":
                model.eval()        # F7: a legal collaborator that flips the mode
            elif kn["callbacks"] == "adversarial_child":
                for m in model.submodules()[1::2]:
                    m.eval()        # ... of some layers only: the root flag no longer tells the mode of the tree
            elif kn["callbacks"] == "grow":
                sim._grow(st, loader, "train")
            # (what the loader itself reports after the callback: how a DataLoader reacts to its data being swapped is C18's matter)
            st.cur["train"] = len(loader)
            st.trace[-1]["n_batches"] = st.cur["train"]

        def on_val(model, loader):
            sim._emit(st, "cb_val")
            if kn["callbacks"] == "adversarial":
                model.train()
            elif kn["callbacks"] == "adversarial_child":
                for m in model.submodules()[::2]:
                    m.train()
            elif kn["callbacks"] == "grow" and st.cur["val"]:
                sim._grow(st, loader, "val")
            st.cur["val"] = len(loader)
            st.trace[-1]["n_batches"] = st.cur["val"]
        if kn["callbacks"] == "none" and not (fault and fault["where"] == "callback"):
            return None, None
        st.probes["callback_adversarial_mode_flip" if kn["callbacks"].startswith("adversarial") else "callback_logging"] += 1
        if kn["callbacks"] == "adversarial_child":
            st.probes["callback_flips_child_layers"] += 1
        return on_train, on_val

    def _tweak(self, st):
        """between two calls the user leaves the tree in a mixed mode (a child switched by hand)"""
        if st.knobs.get("tweak_between") and st.n_done >= 1:
            subs = st.model.submodules()
            for k, m in enumerate(subs):
                (m.eval if (k + st.n_done) % 2 else m.train)()
            st.probes["mixed_mode_tree_before_call"] += 1

    def _ev_fit(self, st, ev):
        kn = st.knobs
        self._tweak(st)
        st.n_done += 1
        epochs = ev["epochs"]
        fault = ev.get("fault")
        del st.trace[:]
        mode_before = self._grad_mode(st)
        on_train, on_val = self._callbacks(st, fault)
        if fault:
            if fault["where"] == "forward":
                SEAM.arm(fault["kind"], fault["at"])
            elif fault["where"] == "line":
                SEAM.arm_spec({"kind": fault["kind"], "seam": "line", "at": fault["at"]})
            else:
                st.pending_fault = fault["where"]
        raised = None
        start_cur = dict(st.cur)
        try:
            with quiet():
                hist = st.trainer.fit(st.train_loader, epochs, validation_loader=st.val_loader, on_train_epoch=on_train, on_validation_epoch=on_val)
        except SimFault as e:
            raised = e
        except Exception as e:
            SEAM.disarm()
            st.pending_fault = None
            st.fail("C20.fit_raises", f"fit(epochs={epochs}, {kn['n_train']} train batches, {kn['n_val']} val batches, evaluator={kn['task'] if kn['evaluator'] else None}) "
                    f"raised {type(e).__name__}: {e}")
        armed = SEAM.disarm()
        fired = raised is not None
        if fault and not fired:
            if st.pending_fault is not None:
                st.pending_fault = None      # the fault point was never reached (e.g. epochs=0)
            fault = None
        if fired:
            st.probes["fault_in_" + fault["where"]] += 1
            if fault["where"] in ("forward", "line"):
                st.faults[f"F2.{'kernel' if fault['where'] == 'forward' else 'line'}_{fault['kind']}"] += 1
            st.after_fault = True
            st.kept.append(raised)          # the caller keeps the exception (error list, sys.last_traceback in a notebook)
            # of the interrupted call only this is asserted: the global gradient mode is what it was (with-blocks unwind);
            # then the user goes on with a fault-free call, which must satisfy the strict oracle
            if self._grad_mode(st) != mode_before:
                st.fail("C20.grad_mode_restored", f"after fit() was left by an exception ({fault['where']}) the global gradient mode is {self._grad_mode(st)}, "
                        f"it was {mode_before} before the call")
            return
        if fault is None and ev.get("fault") is not None and raised is None and False:
            pass
        if st.after_fault:
            st.probes["second_fit_after_fault"] += 1
        if st.n_calls >= 2 and not st.after_fault:
            st.probes["fit_twice"] += 1
        self._judge_fit(st, epochs, hist, mode_before)

    def _judge_fit(self, st, epochs, hist, mode_before):
        kn = st.knobs
        tr = st.trace
        nb = kn["n_train"]
        nv = kn["n_val"]
        # batches per epoch: constant, unless a callback grew the loader at the start of the epoch (its event carries the new count)
        cbt = [e for e in tr if e["k"] == "cb_train"]
        cbv = [e for e in tr if e["k"] == "cb_val"]
        nbs = [e["n_batches"] for e in cbt] if len(cbt) == epochs else [st.cur["train"]] * epochs
        nvs = [e["n_batches"] for e in cbv] if (nv and len(cbv) == epochs) else [st.cur["val"]] * epochs
        if kn["callbacks"] != "none" and (len(cbt) != epochs or (nv and len(cbv) != epochs)):
            st.fail("C20.callbacks", f"on_train_epoch was called {len(cbt)} times and on_validation_epoch {len(cbv)} times in {epochs} epochs")
        toff = [sum(nbs[:i]) for i in range(epochs + 1)]
        voff = [sum(nvs[:i]) for i in range(epochs + 1)]
        st.probes["epochs_0" if epochs == 0 else "epochs_3" if epochs == 3 else "validation_loader" if nv else "no_validation"] += 1
        if nv: st.probes["validation_loader"] += 1
        else: st.probes["no_validation"] += 1
        if self._grad_mode(st) != mode_before:
            st.fail("C20.grad_mode_restored", f"the global gradient mode is {self._grad_mode(st)} after fit, it was {mode_before} before")
        steps = [e for e in tr if e["k"] == "step"]
        if len(steps) != toff[-1]:
            st.fail("C20.step_count", f"fit(epochs={epochs}) over a loader of {nbs} batches per epoch performed {len(steps)} optimizer steps, expected {toff[-1]}")
        # segment the trace by steps
        prev = 0
        for n, s in enumerate(steps):
            i = self._pos(tr, s)
            seg = tr[prev:i]
            prev = i + 1
            bws = [e for e in seg if e["k"] == "backward_start"]
            bwe = [e for e in seg if e["k"] == "backward_end"]
            if len(bws) != 1 or len(bwe) != 1:
                st.fail("C20.one_backward_per_step", f"step #{n + 1}: {len(bws)} backward calls of a criterion loss since the previous step, expected exactly one")
            losses = {e["seq"] for e in seg if e["k"] == "loss"}
            if bws[0]["loss_seq"] not in losses:
                st.fail("C20.one_backward_per_step", f"step #{n + 1}: the loss that was back-propagated was not computed for this batch")
            for g in bws[0]["grads"]:
                if g is not None and np.any(g):
                    st.fail("C20.gradients_cleared", f"step #{n + 1}: backward started with a non-zero gradient left on a trainable parameter (gradients were not cleared for this batch)")
            if not bws[0]["model_training"] or not s["model_training"]:
                pass   # the mode at backward/step time is not part of the statement; forwards are checked below
            ge, gs = bwe[0]["grads"], s["grads"]
            if len(ge) != len(gs) or any((a is None) != (b is None) or (a is not None and not np.array_equal(a, b)) for a, b in zip(ge, gs)):
                st.fail("C20.gradients_unchanged_until_step", f"step #{n + 1}: parameter gradients changed between the end of backward and optimizer.step()")
            fw = [e for e in seg if e["k"] == "forward" and self._phase_of(tr, e) == "train"]
            if len(fw) != 1:
                st.fail("C20.one_forward_per_step", f"step #{n + 1}: {len(fw)} training forwards for one batch")
            if not fw[0]["training"]:
                st.fail("C20.training_mode", f"step #{n + 1}: the training forward ran with (part of) the model in eval mode "
                        f"(callbacks={kn['callbacks']})")
            if not fw[0]["grad_mode"]:
                st.fail("C20.training_mode", f"step #{n + 1}: the training forward ran with gradient tracking disabled")
            st.nontrivial = True
        # validation phases
        val_fw = [e for e in tr if e["k"] == "forward" and self._phase_of(tr, e) == "val"]
        if len(val_fw) != (voff[-1] if nv else 0):
            st.fail("C20.validation_batches", f"{len(val_fw)} validation forwards, expected {voff[-1] if nv else 0}")
        for e in val_fw:
            if e["any_training"]:
                st.fail("C20.validation_mode", f"a validation forward ran with (part of) the model in training mode (callbacks={kn['callbacks']})")
            if e["grad_mode"]:
                st.fail("C20.validation_mode", "a validation forward ran with gradient tracking enabled")
        self._check_phase_frozen(st, tr, "val")
        # history
        keys = {"loss"}
        if kn["evaluator"]:
            keys.add("accuracy")
            if kn["acc_cb"]:
                keys.add("cb_metric")
        if nv:
            keys |= {"val_" + k for k in keys}
        if epochs == 0:
            if hist and any(len(v) for v in hist.values()):
                st.fail("C20.history", f"fit(epochs=0) returned a non-empty history {list(hist)}")
            return
        if set(hist) != keys:
            st.fail("C20.history_keys", f"history has keys {sorted(hist)}, expected {sorted(keys)} (validation loader {'given' if nv else 'absent'}, "
                    f"evaluator {'given' if kn['evaluator'] else 'absent'})")
        for k, v in hist.items():
            if len(v) != epochs:
                st.fail("C20.history_length", f"history[{k!r}] has {len(v)} entries after {epochs} epochs")
        loss_ev = [e for e in tr if e["k"] == "loss"]
        tl = [e for e in loss_ev if self._phase_of(tr, e) == "train"]
        vl = [e for e in loss_ev if self._phase_of(tr, e) == "val"]
        for ep in range(epochs):
            want = float(np.mean([e["value"] for e in tl[toff[ep]:toff[ep + 1]]]))
            got = float(hist["loss"][ep])
            if not abs(got - want) <= 1e-5 * (abs(want) + 1):
                st.fail("C20.epoch_loss", f"epoch {ep + 1}: reported loss {got!r}, mean of the {nbs[ep]} batch losses is {want!r}")
            if nv:
                want = float(np.mean([e["value"] for e in vl[voff[ep]:voff[ep + 1]]]))
                got = float(hist["val_loss"][ep])
                if not abs(got - want) <= 1e-5 * (abs(want) + 1):
                    st.fail("C20.epoch_loss", f"epoch {ep + 1}: reported val_loss {got!r}, mean of the {nvs[ep]} validation batch losses is {want!r}")
            if kn["evaluator"]:
                for pre, evs, off in (("", tl, toff), ("val_", vl, voff)):
                    if not off[-1]:
                        continue
                    want = self._accuracy(kn["task"], evs[off[ep]:off[ep + 1]])
                    got = float(hist[pre + "accuracy"][ep])
                    if not abs(got - want) <= 1e-9:
                        st.fail("C20.accuracy", f"epoch {ep + 1}: reported {pre}accuracy {got!r}, fraction of correct predictions under mode {kn['task']!r} is {want!r}")

    def _ev_evalhist(self, st, ev):
        """Evaluator accuracy = fraction of correct predictions since the last compute()/reset(), for any history of calls"""
        SG = st.SG
        mode, c = ev["mode"], ev["c"]
        seen = {"step": [], "epoch": []}
        cbs = {}
        if ev["cb"] == "epoch":
            cbs["epoch_callback"] = lambda yt, yp: (seen["epoch"].append((len(yt), int((np.asarray(yt) == np.asarray(yp)).sum()))), [("n", len(yt))])[1]
        if ev["cb"] == "step":
            cbs["step_callback"] = lambda yt, yp: (seen["step"].append((len(yt), int((np.asarray(yt) == np.asarray(yp)).sum()))), [("n", len(yt))])[1]
        evaluator = st.must("C20.evaluator_raises", "Evaluator()", lambda: SG.train.Evaluator(mode=mode, **cbs))
        st.probes["evaluator_history"] += 1
        ok = tot = n_comp = 0
        last = None
        for op in ev["ops"]:
            if op["o"] == "step":
                rs = np.random.RandomState(op["seed"])
                n = op["n"]
                true = rs.randint(0, 2 if mode == "binary" else c, size=n)
                hit = rs.random_sample(n) < op["p_ok"]
                pred = np.where(hit, true, (true + 1 + rs.randint(0, max(1, (2 if mode == "binary" else c) - 1), size=n)) % (2 if mode == "binary" else c))
                if mode == "binary":
                    out = np.where(pred == 1, 0.5 + rs.uniform(0.05, 0.5, size=n), 0.5 - rs.uniform(0.05, 0.5, size=n)).astype(np.float32).reshape(n, 1)
                    lab = true.astype(np.float32).reshape(n, 1)
                else:
                    out = rs.uniform(-1.0, 1.0, size=(n, c)).astype(np.float32)
                    out[np.arange(n), pred] = 2.0 + rs.uniform(0.0, 1.0, size=n).astype(np.float32)
                    lab = true.astype(np.int64) if mode == "multi-class" else np.eye(c, dtype=np.float32)[true]
                b_ok, b_n = int((pred == true).sum()), n
                with quiet():
                    got = st.must("C20.evaluator_raises", f"Evaluator(mode={mode!r}).step on {n} samples", lambda: evaluator.step(SG.Tensor(lab), SG.Tensor(out), prefix=op["prefix"]))
                ok += b_ok
                tot += b_n
                name = ("val_" if op["prefix"] else "") + "accuracy"
                d = dict(got)
                if name not in d or not abs(float(d[name]) - b_ok / b_n) <= 1e-9:
                    st.fail("C20.accuracy", f"Evaluator(mode={mode!r}).step on a batch of {b_n} samples with {b_ok} correct predictions returned {got!r}, "
                            f"{name} must be {b_ok / b_n!r}")
                if ev["cb"] == "step" and (not seen["step"] or seen["step"][-1] != (b_n, b_ok)):
                    st.fail("C20.accuracy", f"the step callback of the Evaluator was handed {seen['step'][-1:]} (samples, correct), the batch had ({b_n}, {b_ok})")
                last = "step"
            elif op["o"] == "reset":
                st.must("C20.evaluator_raises", "Evaluator.reset()", evaluator.reset)
                ok = tot = 0
                st.probes["evaluator_reset_mid_history"] += 1
                last = "reset"
            else:
                if tot == 0:
                    continue            # 0/0: not asserted
                if tot > 32767:
                    st.probes["evaluator_history_over_32767_samples"] += 1
                with quiet():
                    got = st.must("C20.evaluator_raises", f"Evaluator(mode={mode!r}).compute() after {tot} samples", lambda: evaluator.compute(prefix=op["prefix"]))
                name = ("val_" if op["prefix"] else "") + "accuracy"
                d = dict(got)
                if name not in d or not abs(float(d[name]) - ok / tot) <= 1e-9:
                    st.fail("C20.accuracy", f"Evaluator(mode={mode!r}).compute() after {tot} samples with {ok} correct predictions since the last compute()/reset() "
                            f"returned {got!r}, {name} must be {ok / tot!r}")
                if ev["cb"] == "epoch" and (not seen["epoch"] or seen["epoch"][-1] != (tot, ok)):
                    st.fail("C20.accuracy", f"the epoch callback of the Evaluator was handed {seen['epoch'][-1:]} (samples, correct), the epoch had ({tot}, {ok})")
                if n_comp:
                    st.probes["evaluator_second_epoch"] += 1
                n_comp += 1
                ok = tot = 0
                last = "compute"

    def _accuracy(self, task, evs):
        ok = tot = 0
        for e in evs:
            out, lab = e["outputs"], e["labels"]
            if task == "binary":
                pred = (out.reshape(-1) > 0.5).astype(int)
                true = np.asarray(lab).reshape(-1).astype(int)
            elif task == "multi-class":
                pred = np.argmax(out, axis=1)
                true = np.asarray(lab).reshape(-1).astype(int)
            else:
                pred = np.argmax(out, axis=1)
                true = np.argmax(lab, axis=1)
            ok += int((pred == true).sum())
            tot += len(true)
        return ok / tot if tot else 0.0

    @staticmethod
    def _pos(tr, e):
        for i, x in enumerate(tr):
            if x is e:
                return i
        raise ValueError("event not in trace")

    def _phase_of(self, tr, e):
        """phase of the most recent batch pulled before event e"""
        i = self._pos(tr, e)
        for x in reversed(tr[:i]):
            if x["k"] == "batch":
                return x["phase"]
        return None

    def _check_phase_frozen(self, st, tr, phase):
        """parameters and running statistics identical across each maximal run of `phase` batches"""
        start = None
        for i, e in enumerate(tr + [{"k": "end"}]):
            if e["k"] == "batch" and e["phase"] == phase:
                if start is None:
                    start = e["digests"]
                elif e["digests"] != start:
                    st.fail("C20.validation_changes_state", f"a parameter or running statistic changed during a {phase} phase")
            elif e["k"] in ("batch", "end") and start is not None:
                if e["k"] == "end":
                    now = self._digests(st)
                    # only comparable if nothing trained after the phase
                    later_steps = [x for x in tr[self._pos(tr, [b for b in tr if b["k"] == "batch" and b["phase"] == phase][-1]):] if x["k"] == "step"]
                    if not later_steps and now != start:
                        st.fail("C20.validation_changes_state", f"a parameter or running statistic changed during the last {phase} phase")
                elif e["digests"] != start:
                    st.fail("C20.validation_changes_state", f"a parameter or running statistic changed during a {phase} phase")
                start = None

    def _ev_test(self, st, ev):
        kn = st.knobs
        self._tweak(st)
        st.n_done += 1
        del st.trace[:]
        mode_before = self._grad_mode(st)
        d0 = self._digests(st)
        fault = ev.get("fault")
        try:
            with quiet(), SEAM.armed({"kind": fault["kind"], "seam": "line", "at": fault["at"]} if fault else None):
                y_pred, y_true = st.trainer.test(st.test_loader)
        except SimFault as e:
            st.kept.append(e)
            st.faults["F2.test_line_" + fault["kind"]] += 1
            st.probes["fault_in_test"] += 1
            st.after_fault = True
            if self._grad_mode(st) != mode_before:
                st.fail("C20.grad_mode_restored", f"after test() was left by an exception the global gradient mode is {self._grad_mode(st)}, it was {mode_before} before")
            return
        except Exception as e:
            st.fail("C20.test_raises", f"test() raised {type(e).__name__}: {e}")
        st.probes["test_call"] += 1
        tr = st.trace
        if self._grad_mode(st) != mode_before:
            st.fail("C20.grad_mode_restored", f"the global gradient mode is {self._grad_mode(st)} after test(), it was {mode_before} before")
        if self._digests(st) != d0:
            st.fail("C20.validation_changes_state", "test() changed a parameter or a running statistic")
        fw = [e for e in tr if e["k"] == "forward"]
        nt = max(1, kn["n_val"])
        if len(fw) != nt:
            st.fail("C20.validation_batches", f"test() ran {len(fw)} forwards over a loader of {nt} batches")
        for e in fw:
            if e["any_training"] or e["grad_mode"]:
                st.fail("C20.validation_mode", f"a test forward ran with (part of) the model in training mode = {e['any_training']} and gradient tracking {'on' if e['grad_mode'] else 'off'}")
        if [e for e in tr if e["k"] in ("step", "zero_grad", "backward_start")]:
            st.fail("C20.validation_changes_state", "test() called the optimizer or a backward")
        if len(y_pred) != nt * kn["batch"] or len(y_true) != nt * kn["batch"]:
            st.fail("C20.test_outputs", f"test() returned {len(y_pred)} predictions and {len(y_true)} labels for {nt * kn['batch']} samples")
