"""datasim - C18, scoped to its stateful / random clauses: DataLoader is re-iterable from the
start and keeps batches aligned across re-iterations (cursor on the loader; partial
iteration, abandonment F6, restart, interleaved len()/[] access, epochs), and
split_dataset(shuffle=True) is a partition with pairs preserved for ANY RNG state (seam:
real seeded generator and adversarial stub permutations - identity, reversal, rotation,
swap).  The pure clauses (floor-rule sizes, order without shuffle, one-hot index rule,
transform pass-through incl. transform=None) are evaluated where these histories pass
through them, with the LoaderModel as reference; no dedicated input search.

Oracle (LoaderModel): every full iteration yields exactly floor(n/b) batches, batch j =
rows [jb, (j+1)b) of X and y, identical on every re-iteration whatever was abandoned
before; the transform is called once per yielded batch with exactly that slice and its
return value is what the loop sees; split parts are disjoint, cover all samples, keep
(x, y) pairs and have floor-rule sizes.

Not asserted: two SIMULTANEOUS iterations over one loader (the statement promises
re-iteration from the start, not independent cursors): a new iter() abandons the old one.
"""
import numpy as np

from simkit.core import RunState, Sim
from simkit.world import World, SEAM, SimFault, SimBodyError


EXC = {"SimBodyError": SimBodyError, "IndexError": IndexError, "ValueError": ValueError, "KeyError": KeyError, "MemoryError": MemoryError}


class DataSim(Sim):
    PROP = "C18"
    NAME = "datasim"
    QUICK_RUNS = 80000
    THOROUGH_RUNS = 600000
    MAX_EVENTS = 40
    RUN_TIMEOUT = 20
    PROBES = ["reiteration_after_full_epoch", "reiteration_after_abandon", "len_during_iteration", "getitem_during_iteration", "transform_none",
              "transform_tagging", "transform_raises", "n_smaller_than_batch", "n_not_multiple_of_batch", "split_shuffle_real_rng",
              "split_shuffle_stub_perm", "split_no_shuffle", "split_with_validation", "one_hot", "exhausted_polled_again", "three_epochs", "next_interrupted_then_new_epoch",
              "loader_over_non_contiguous_array", "earlier_batches_held_while_fetching", "one_hot_small_ints", "one_hot_strings", "one_hot_floats", "one_hot_bools", "split_beyond_32768_samples",
              "loader_with_more_than_1024_batches", "split_dataset_kind_f8", "split_dataset_kind_list", "split_dataset_kind_u1"]
    RULE = ("one run = 1-2 loaders and a seeded interleaving of iter/next/abandon/restart/full-epoch/len/index events plus dataset splits under real "
            "and stubbed shuffles; distinct = hash of (loader geometry class, order of events); non-trivial = a loader was re-iterated after a "
            "partial or full pass, or a shuffled split ran")

    def knobs(self, rng, tier):
        return {"max_events": rng.randint(5, 40), "n_loaders": rng.randint(1, 2), "np_seed": rng.randrange(2 ** 31), "faulty": rng.random() < 0.3}

    def start(self, knobs):
        st = RunState(knobs)
        st.world = World(knobs.get("np_seed", 1))
        st.SG = st.world.SG
        st.Ld = {}      # lid -> dict(obj, X, y, n, b, tf, calls)
        st.its = {}     # lid -> {"obj", "pos", "done"}   (one live iteration per loader)
        return st

    # ------------------------------------------------------------------ generation
    def gen(self, rng, st):
        kn = st.knobs
        if getattr(st, "pending", None) and len(st.Ld) >= 1 and st.pending[0].get("lid", 0) in st.Ld:
            return st.pending.pop(0)
        if len(st.Ld) < kn["n_loaders"]:
            n = rng.choice([0, 1, 2, 3, 5, 7, 8, 10, 12, 17])
            b = rng.choice([1, 2, 3, 4, 5, 8])
            if rng.random() < 0.004:
                # rarely a loader of 1100-2600 batches, walked twice (pools and per-batch caches inside a loader wrap around)
                b = rng.choice([1, 2])
                n = b * rng.randint(1100, 1300 if b == 2 else 2600) + rng.choice([0, 1])
                st.pending = [{"k": "epoch", "lid": len(st.Ld), "times": 2}, {"k": "getitem", "lid": len(st.Ld), "j": 0}, {"k": "getitem", "lid": len(st.Ld), "j": 3}]
            return {"k": "loader", "lid": len(st.Ld), "n": n, "b": b, "d": rng.randint(1, 3), "tf": rng.choice(["none", "none", "identity", "tag", "raise"]),
                    "raise_at": rng.randint(0, 3), "kind": rng.choice(["array", "list"]),
                    "exc": rng.choice(["SimBodyError", "SimBodyError", "IndexError", "ValueError", "KeyError", "MemoryError"]),
                    "layout": rng.choice(["C", "C", "C", "cols", "every2nd", "reversed", "F"]), "hold": rng.random() < 0.5}
        if getattr(st, "pending", None):
            return st.pending.pop(0)
        lid = rng.choice(sorted(st.Ld))
        r = rng.random()
        if r < 0.2:
            return {"k": "iter_new", "lid": lid}
        if r < 0.55 and lid in st.its:
            ev = {"k": "iter_next", "lid": lid}
            if kn.get("faulty") and rng.random() < 0.15:
                # a crash point at an arbitrary line inside the loader's own code; the caller abandons the pass and starts a new epoch
                ev["fault"] = {"kind": rng.choice(["alloc", "interrupt", "exit"]), "seam": "line", "at": rng.randint(1, 25)}
                st.pending = [{"k": "epoch", "lid": lid, "times": 1}]
            return ev
        if r < 0.68:
            return {"k": "epoch", "lid": lid, "times": rng.choice([1, 1, 2, 3])}
        if r < 0.74:
            return {"k": "len", "lid": lid}
        if r < 0.80:
            return {"k": "getitem", "lid": lid, "j": rng.randint(0, 4)}
        if r < 0.93:
            n = rng.choice([0, 1, 4, 5, 10, 11, 20]) if rng.random() < 0.997 else rng.choice([300, 40000, 70000])      # rarely beyond 2^15 / 2^16 samples
            return {"k": "split", "n": n, "test": rng.choice([0.0, 0.2, 0.25, 0.5, 1.0, 0.33]), "val": rng.choice([None, None, 0.0, 0.2, 0.5, 1.0]),
                    "shuffle": rng.random() < 0.7, "perm": rng.choice(["real", "real", "identity", "reverse", "rotate", "swap"]),
                    "xkind": rng.choice(["f4", "f4", "f8", "list", "u1", "i8"]), "offset": rng.randrange(1, 120)}
        kind = rng.choice(["ints", "ints", "small_ints", "small_ints", "floats", "strings", "bools"])
        pool = {"ints": [3, 7, -1, 10, 0], "small_ints": list(range(-3, 5)), "floats": [0.5, -1.0, 2.0, 1.0, 0.0], "strings": ["cat", "dog", "bird", "ant", "Zebra", "b", "a10", "a9"],
                "bools": [True, False]}[kind]
        sub = rng.sample(pool, rng.randint(1, min(4, len(pool))))
        return {"k": "one_hot", "labels": [rng.choice(sub) for _ in range(rng.randint(1, 8))], "kind": kind, "as": rng.choice(["array", "array", "list"])}

    # ------------------------------------------------------------------ events
    def apply(self, st, ev):
        st.sig.append(ev["k"])
        getattr(self, "_ev_" + ev["k"])(st, ev)

    def _ev_loader(self, st, ev):
        data = st.SG.data
        n, b, d = ev["n"], ev["b"], ev["d"]
        X = np.arange(n * d, dtype=np.float32).reshape(n, d) + 1000.0 * ev["lid"]
        y = np.arange(n, dtype=np.float32) * 10 + 7
        layout = ev.get("layout", "C") if ev["kind"] == "array" else "C"
        if layout == "cols":
            X = np.repeat(X, 2, axis=1)[:, ::2]                 # a column selection of a wider table (strided, same values)
        elif layout == "every2nd":
            X = np.repeat(X, 2, axis=0)[::2]                    # every second sample of a bigger array
        elif layout == "reversed":
            X = X[::-1].copy()[::-1]                            # negative strides
        elif layout == "F":
            X = np.asfortranarray(X)
        if layout != "C":
            st.probes["loader_over_non_contiguous_array"] += 1
        L = {"X": np.array(X, copy=True), "y": y.copy(), "n": n, "b": b, "tf": ev["tf"], "calls": [], "raise_at": ev["raise_at"], "epochs": 0,
             "hold": bool(ev.get("hold")), "held": []}
        Xs, ys = (X, y) if ev["kind"] == "array" else ([row for row in X], [v for v in y])

        def transform(loader, xb, yb):
            L["calls"].append((np.array(xb, dtype=np.float32).copy(), np.array(yb, dtype=np.float32).copy()))
            if ev["tf"] == "raise" and len(L["calls"]) - 1 == L["raise_at"]:
                # user code failing inside the look-up (a mislabelled sample in a one-hot table look-up raises IndexError, ...)
                L["raised"] = e = EXC[ev.get("exc", "SimBodyError")]("transform raised")
                raise e
            if ev["tf"] == "tag":
                return ("tagged", np.array(xb), np.array(yb))
            return xb, yb
        tf = None if ev["tf"] == "none" else transform
        if ev["tf"] == "none":
            st.probes["transform_none"] += 1
        if ev["tf"] == "tag":
            st.probes["transform_tagging"] += 1
        L["obj"] = st.must("C18.loader_constructor", "DataLoader(...)", data.DataLoader, Xs, ys, b, tf)
        st.Ld[ev["lid"]] = L
        if n // b > 1024:
            st.probes["loader_with_more_than_1024_batches"] += 1
        if n < b:
            st.probes["n_smaller_than_batch"] += 1
        elif n % b:
            st.probes["n_not_multiple_of_batch"] += 1

    def _check_batch(self, st, L, lid, j, item, where):
        n, b = L["n"], L["b"]
        wantX, wanty = L["X"][j * b:(j + 1) * b], L["y"][j * b:(j + 1) * b]
        if L["tf"] == "tag":
            if not (isinstance(item, tuple) and len(item) == 3 and item[0] == "tagged"):
                st.fail("C18.transform", f"{where}: the loop did not receive what the transform returned", loader=lid)
            item = item[1:]
        try:
            xb, yb = item
            xb, yb = np.asarray(xb, dtype=np.float32), np.asarray(yb, dtype=np.float32)
        except Exception as e:
            st.fail("C18.batch", f"{where}: batch {j} is not an (X, y) pair ({type(e).__name__}: {e})", loader=lid)
        if xb.shape != wantX.shape or yb.shape != wanty.shape or not np.array_equal(xb, wantX) or not np.array_equal(yb, wanty):
            st.fail("C18.batch", f"{where}: batch {j} of loader {lid} (n={n}, batch_size={b}) is not rows [{j * b}, {(j + 1) * b}) of X and y "
                    f"(got X{list(xb.shape)} first={xb.reshape(-1)[:1].tolist()}, y={yb.reshape(-1)[:4].tolist()})", loader=lid)
        if L.get("hold"):
            # the program collects the batches of a pass before using them: batches handed out earlier must stay what they were
            for (j0, item0) in L["held"]:
                x0, y0 = item0[-2], item0[-1]
                if not np.array_equal(np.asarray(x0, dtype=np.float32), L["X"][j0 * b:(j0 + 1) * b]) or not np.array_equal(np.asarray(y0, dtype=np.float32), L["y"][j0 * b:(j0 + 1) * b]):
                    st.fail("C18.batch", f"{where}: batch {j0} of loader {lid}, handed out earlier and still held by the program, changed when batch {j} was fetched "
                            "(features and labels no longer belong together)", loader=lid)
            if L["held"]:
                st.probes["earlier_batches_held_while_fetching"] += 1
            L["held"] = (L["held"] + [(j, item if isinstance(item, tuple) else tuple(item))])[-3:]
        if L["tf"] in ("identity", "tag", "raise"):
            if not L["calls"]:
                st.fail("C18.transform", f"{where}: a batch was yielded without passing through the transform", loader=lid)
            cx, cy = L["calls"][-1]
            if not np.array_equal(cx, wantX) or not np.array_equal(cy, wanty):
                st.fail("C18.transform", f"{where}: the transform was called with a different slice than the one yielded", loader=lid)

    def _next(self, st, lid, where):
        """advance the live iteration of loader lid; returns False when it ended"""
        L, c = st.Ld[lid], st.its[lid]
        nb = L["n"] // L["b"]
        ncalls = len(L["calls"])
        L["raised"] = None
        try:
            item = next(c["obj"])
        except StopIteration:
            if L.get("raised") is not None:
                st.fail("C18.transform_error_swallowed", f"{where}: the transform raised {type(L['raised']).__name__} while batch {c['pos']} of loader {lid} was "
                        "fetched; the loader turned it into the end of the iteration - the remaining samples are dropped without any error", loader=lid)
            if c["pos"] < nb:
                st.fail("C18.batch_count", f"{where}: loader {lid} (n={L['n']}, batch_size={L['b']}) stopped after {c['pos']} batches, expected {nb}", loader=lid)
            if c["done"]:
                st.probes["exhausted_polled_again"] += 1
            c["done"] = True
            return False
        except (SimBodyError, IndexError, ValueError, KeyError, MemoryError) as e:
            if isinstance(e, SimFault) and not isinstance(e, SimBodyError):
                raise                      # injected by the simulator, handled by the event
            if L["tf"] == "raise" and e is L.get("raised"):
                st.probes["transform_raises"] += 1
                st.faults["F3.transform_raise"] += 1
                c["pos"] += 1           # the batch was consumed by the failed call; nothing is promised about resuming: abandon
                st.its.pop(lid, None)
                return False
            if isinstance(e, SimBodyError):
                raise
            st.fail("C18.batch", f"{where}: next() on loader {lid} (transform={L['tf']}) raised {type(e).__name__}: {e}", loader=lid)
        except Exception as e:
            st.fail("C18.batch", f"{where}: next() on loader {lid} (transform={L['tf']}) raised {type(e).__name__}: {e}", loader=lid)
        if L.get("raised") is not None:
            st.fail("C18.transform_error_swallowed", f"{where}: the transform raised {type(L['raised']).__name__} for batch {c['pos']} of loader {lid} and the loop "
                    "received a batch all the same", loader=lid)
        if c["pos"] >= nb:
            st.fail("C18.batch_count", f"{where}: loader {lid} (n={L['n']}, batch_size={L['b']}) yielded batch #{c['pos']}, only {nb} full batches exist", loader=lid)
        if L["tf"] != "none" and len(L["calls"]) != ncalls + 1:
            st.fail("C18.transform", f"{where}: the transform was called {len(L['calls']) - ncalls} times for one batch", loader=lid)
        self._check_batch(st, L, lid, c["pos"], item, where)
        c["pos"] += 1
        return True

    def _ev_iter_new(self, st, ev):
        lid = ev["lid"]
        L = st.Ld.get(lid)
        if L is None:
            st.skipped += 1
            return
        old = st.its.get(lid)
        if old is not None:
            st.nontrivial = True
            st.probes["reiteration_after_abandon" if not old["done"] else "reiteration_after_full_epoch"] += 1
        obj = st.must("C18.iter", "iter(loader)", iter, L["obj"])
        st.its[lid] = {"obj": obj, "pos": 0, "done": False}

    def _ev_iter_next(self, st, ev):
        if ev["lid"] not in st.its:
            st.skipped += 1
            return
        try:
            with SEAM.armed(ev.get("fault")):
                self._next(st, ev["lid"], "explicit next()")
        except SimFault:
            SEAM.disarm()
            st.faults["F2.next_line_" + ev["fault"]["kind"]] += 1
            st.probes["next_interrupted_then_new_epoch"] += 1
            st.its.pop(ev["lid"], None)          # the pass is abandoned; a later iteration starts from the first batch again

    def _ev_epoch(self, st, ev):
        lid = ev["lid"]
        L = st.Ld.get(lid)
        if L is None:
            st.skipped += 1
            return
        for e in range(ev["times"]):
            old = st.its.get(lid)
            if old is not None or L["epochs"]:
                st.nontrivial = True
                st.probes["reiteration_after_abandon" if (old is not None and not old["done"]) else "reiteration_after_full_epoch"] += 1
            # a real for-loop: for batch in loader
            obj = st.must("C18.iter", "iter(loader)", iter, L["obj"])
            st.its[lid] = {"obj": obj, "pos": 0, "done": False}
            guard = 0
            while self._next(st, lid, f"for-loop epoch {L['epochs'] + 1}"):
                guard += 1
                if guard > L["n"] // L["b"] + 1000:
                    st.fail("C18.batch_count", "a for-loop over the loader did not terminate", loader=lid)
            if lid not in st.its:
                break       # the transform raised: the loop was left by the exception
            L["epochs"] += 1
            if L["epochs"] >= 3:
                st.probes["three_epochs"] += 1

    def _ev_len(self, st, ev):
        L = st.Ld.get(ev["lid"])
        if L is None:
            st.skipped += 1
            return
        if ev["lid"] in st.its and not st.its[ev["lid"]]["done"]:
            st.probes["len_during_iteration"] += 1
        got = st.must("C18.len", "len(loader)", len, L["obj"])
        if got != L["n"] // L["b"]:
            st.fail("C18.len", f"len(loader) = {got}, floor({L['n']}/{L['b']}) = {L['n'] // L['b']}", loader=ev["lid"])

    def _ev_getitem(self, st, ev):
        lid = ev["lid"]
        L = st.Ld.get(lid)
        if L is None:
            st.skipped += 1
            return
        nb = L["n"] // L["b"]
        j = ev["j"]
        if j >= nb:
            st.skipped += 1
            return
        if L["tf"] == "raise":
            st.skipped += 1
            return
        live = lid in st.its and not st.its[lid]["done"]
        pos = st.its[lid]["pos"] if live else None
        try:
            item = L["obj"][j]
        except Exception as e:
            st.fail("C18.batch", f"loader[{j}] (transform={L['tf']}) raised {type(e).__name__}: {e}", loader=lid)
        self._check_batch(st, L, lid, j, item, f"loader[{j}]")
        if live:
            st.probes["getitem_during_iteration"] += 1

    def _ev_split(self, st, ev):
        data = st.SG.data
        n = ev["n"]
        if n > 32768:
            st.probes["split_beyond_32768_samples"] += 1
        X = np.arange(n * 2, dtype=np.float32).reshape(n, 2)
        y = np.arange(n, dtype=np.float32) * 2 + 1        # pair rule: y == X[:,0] + 1
        off = float(ev.get("offset", 0)) if n <= 60 else 0.0
        if off:
            # every dataset of the process has its own values (features of an EARLIER dataset cannot pass for this one's);
            # datasets come as float32 / float64 / small-integer arrays or plain lists
            X = X + off * 2
            y = y + off * 2
            st.probes["split_dataset_kind_" + ev.get("xkind", "f4")] += 1
        xk = ev.get("xkind", "f4") if n <= 60 else "f4"
        if xk == "f8":
            X = X.astype(np.float64)
        elif xk == "u1" and X.size and X.max() < 250:
            X = X.astype(np.uint8)
        elif xk == "i8":
            X = X.astype(np.int64)
        elif xk == "list":
            X = [list(map(float, r)) for r in X]
        test, val, shuffle = ev["test"], ev["val"], ev["shuffle"]
        perm = ev["perm"]
        saved = np.random.shuffle
        hit = [0]
        if shuffle and perm != "real":
            def stub(a):
                hit[0] += 1
                m = len(a)
                order = list(range(m))
                if perm == "reverse":
                    order = order[::-1]
                elif perm == "rotate":
                    order = order[1:] + order[:1]
                elif perm == "swap" and m >= 2:
                    order[0], order[-1] = order[-1], order[0]
                vals = [a[i] for i in order]
                for i, v in enumerate(vals):
                    a[i] = v
            np.random.shuffle = stub
        try:
            res = data.split_dataset(X, y, test_split=test, val_split=val, shuffle=shuffle)
        except Exception as e:
            np.random.shuffle = saved
            st.fail("C18.split", f"split_dataset(n={n}, test={test}, val={val}, shuffle={shuffle}) raised {type(e).__name__}: {e}")
        np.random.shuffle = saved
        if shuffle:
            st.nontrivial = True
            st.probes["split_shuffle_stub_perm" if (perm != "real" and hit[0]) else "split_shuffle_real_rng"] += 1
        else:
            st.probes["split_no_shuffle"] += 1
        train, tst, vl = res
        n_test = int(np.floor(test * n))
        n_val = int(np.floor(val * (n - n_test))) if val is not None else None
        n_train = n - n_test - (n_val or 0)
        parts = [("train", train, n_train), ("test", tst, n_test)]
        if val is not None:
            st.probes["split_with_validation"] += 1
            if vl is None:
                st.fail("C18.split", "val_split was given but no validation set was returned")
            parts.append(("validation", vl, n_val))
        elif vl is not None:
            st.fail("C18.split", "a validation set was returned although val_split is None")
        seen = []
        for name, (px, py), want in parts:
            px, py = np.asarray(px), np.asarray(py)
            if len(px) != want or len(py) != want:
                st.fail("C18.split_sizes", f"{name} part has {len(px)} samples, the floor rule gives {want} (n={n}, test={test}, val={val})")
            for a, b in zip(px.reshape(len(px), -1) if len(px) else [], py.reshape(-1)):
                if float(b) != float(a[0]) + 1:
                    st.fail("C18.split_pairs", f"{name} part: features and labels are no longer paired (x={a.tolist()}, y={float(b)})")
                seen.append(int(round(float(a[0]) - 2 * off)) // 2)
        if sorted(seen) != list(range(n)):
            st.fail("C18.split_partition", f"the parts do not partition the {n} samples (each sample exactly once): {sorted(seen)[:12]}")
        if not shuffle:
            want_order = list(range(n_test + (n_val or 0), n)) + list(range(n_test)) + (list(range(n_test, n_test + n_val)) if val is not None else [])
            if seen != want_order:
                st.fail("C18.split_order", "without shuffle the parts are not contiguous slices in the original order")

    def _ev_one_hot(self, st, ev):
        data = st.SG.data
        labels = ev["labels"]
        st.probes["one_hot_" + ev.get("kind", "ints")] += 1
        try:
            enc = np.asarray(data.one_hot_encode(np.array(labels) if ev.get("as", "array") == "array" else list(labels)))
        except Exception as e:
            st.fail("C18.one_hot", f"one_hot_encode raised {type(e).__name__}: {e}")
        st.probes["one_hot"] += 1
        uniq = sorted(set(labels))
        want = np.zeros((len(labels), len(uniq)))
        for i, l in enumerate(labels):
            want[i, uniq.index(l)] = 1
        if enc.shape != want.shape or not np.array_equal(enc, want):
            st.fail("C18.one_hot", f"one_hot_encode({labels}) is not the unit vector at the index of each label among the sorted distinct labels")
