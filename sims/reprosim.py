"""reprosim - C19: results are reproducible under manual_seed and independent of hash order.

It is the determinism requirement the simulator imposes on itself, applied to the product.
A generated PROGRAM draws from every random-consuming API (rand / randn / normal /
randint, every nn.init function, layer constructors, Dropout forwards, shuffled splits),
trains for a few steps, and differentiates float32 graphs in which nodes receive >= 3
contributions of widely spread magnitude (1e-3 ... 1e3) so that summation ORDER is visible
in the last bits.  Execution matrix per program (the environment schedule, F5):
  (a) twice in one process after manual_seed(s)                       -> same digest
  (b) in fresh interpreters with PYTHONHASHSEED in {0, 1, random}, with and without junk
      allocations before import (heap / object addresses move)         -> same digest
  (c) the non-random part repeated r times in one process without re-seeding: forward and
      backward results bit-identical across repetitions
All produced arrays, gradients and parameters are hashed.  Clock and OS entropy sources
(time.time, os.urandom, np.random.default_rng() without seed, random.SystemRandom) are
instrumented; their use by the library is reported as the likely cause when digests differ.
"""
import hashlib
import json
import os
import subprocess
import sys

if __name__ == "__main__":
    sys.path.insert(0, os.path.dirname(os.path.dirname(os.path.abspath(__file__))))
    _junk = int(sys.argv[1]) if len(sys.argv) > 1 else 0
    _hold = [bytearray(997 * (i % 13 + 1)) for i in range(_junk)]      # displace the heap before anything is imported

from simkit import env  # noqa: E402
import numpy as np  # noqa: E402

from simkit.core import RunState, Sim  # noqa: E402

INITS = ["uniform_", "normal_", "xavier_uniform_", "xavier_normal_", "kaiming_uniform_", "kaiming_normal_"]


class Hasher:
    def __init__(self):
        self.h = hashlib.sha256()
        self.n = 0

    def add(self, name, a):
        a = np.ascontiguousarray(np.asarray(a))
        self.h.update(f"{name}|{a.dtype}|{a.shape}|".encode())
        self.h.update(a.tobytes())
        self.n += 1


def run_program(spec, SG=None, entropy_log=None, fault_log=None):
    """interpret a program; returns (digest of everything produced, digest of the deterministic part per repetition)"""
    import random as pyrandom
    import time
    SG = SG or env.load()
    sg, nn = SG.sg, SG.nn
    H = Hasher()
    det = []
    # instrument clock / entropy sources
    saved = (time.time, os.urandom, np.random.default_rng)
    used = entropy_log if entropy_log is not None else []

    def spy(name, fn):
        def w(*a, **k):
            f = sys._getframe(1)
            if "synapgrad" in (f.f_code.co_filename or ""):
                used.append(name)
            return fn(*a, **k)
        return w
    time.time, os.urandom, np.random.default_rng = spy("time.time", saved[0]), spy("os.urandom", saved[1]), spy("np.random.default_rng", saved[2])
    import contextlib
    import io
    from simkit.world import LINES, SimFault

    def repeat(n, s, body):
        """the deterministic part of a step, repeated; between two repetitions the same computation may be started once more and
        interrupted at an arbitrary line (the program catches the failure and carries on): complete repetitions stay bit-identical"""
        fb = s.get("fault_between") if s["reps"] > 1 else None
        for rep in range(s["reps"]):
            h = Hasher()
            if fb and rep == 0:
                LINES.arm(fb["kind"], 10 ** 12)      # (counting only: the length of one execution in line events)
            try:
                body(h)
            finally:
                n_lines = LINES.disarm() if (fb and rep == 0) else 0
            H.add(f"{n}:{s['k']}:{rep}", np.frombuffer(h.h.digest(), dtype=np.uint8))
            det.append((n, rep, h.h.hexdigest()))
            if fb and rep == 0:
                LINES.arm(fb["kind"], max(1, int(fb["frac"] * n_lines)))
                try:
                    body(Hasher())
                except SimFault:
                    used_faults.append(fb["kind"])
                except Exception:
                    pass
                finally:
                    LINES.disarm()
    used_faults = fault_log if fault_log is not None else []
    try:
        with contextlib.redirect_stdout(io.StringIO()):
            warm = None
            if spec.get("warmup"):
                # things the program did BEFORE it seeded: a model built and put into eval mode, some random draws, an unshuffled split
                warm = nn.Sequential(nn.ReLU(), nn.Dropout(0.5))           # (no randomly initialised parameters: those would be drawn before the seed)
                warm.eval()
                sg.rand(spec["warmup"])
                SG.data.split_dataset(np.zeros((12, 2), dtype=np.float32), np.zeros(12, dtype=np.float32), test_split=0.25, shuffle=False)
            sg.manual_seed(spec["seed"])
            tensors = []
            if warm is not None:
                warm.train()
                H.add("warm:dropout", warm(sg.ones(4, 3)).data)
                tr, te, va = SG.data.split_dataset(np.arange(24, dtype=np.float32).reshape(12, 2), np.arange(12, dtype=np.float32), test_split=0.25, shuffle=True)
                H.add("warm:split", tr[0])
                tr, te, va = SG.data.split_dataset(np.arange(24, dtype=np.float32).reshape(12, 2), np.arange(12, dtype=np.float32), test_split=0.25, shuffle=False)
                H.add("warm:split_plain", tr[0])
            for n, s in enumerate(spec["steps"]):
                k = s["k"]
                if k == "rand":
                    kw = {"dtype": np.float64} if s.get("f64") else ({"dtype": np.float32} if s.get("f32") else {})
                    t = getattr(sg, s["fn"])(*s["shape"], **kw) if s["fn"] in ("rand", "randn") else \
                        sg.normal(s["loc"], s["scale"], *s["shape"], **kw) if s["fn"] == "normal" else sg.randint(s["low"], s["high"], tuple(s["shape"]))
                    H.add(f"{n}:{s['fn']}", t.data)
                    if t.data.dtype.kind == "f":
                        tensors.append(t)
                elif k == "init":
                    t = sg.empty(*s["shape"])
                    getattr(nn.init, s["fn"])(t)
                    H.add(f"{n}:{s['fn']}", t.data)
                    tensors.append(t)
                elif k == "layer":
                    layer = nn.Linear(s["a"], s["b"]) if s["kind"] == "Linear" else nn.Conv1d(s["a"], s["b"], s["c"]) if s["kind"] == "Conv1d" else nn.Conv2d(s["a"], s["b"], s["c"])
                    for i, p in enumerate(layer.parameters()):
                        H.add(f"{n}:{s['kind']}:p{i}", p.data)
                elif k == "dropout":
                    d = nn.Dropout(s["p"])
                    x = sg.ones(*s["shape"])
                    H.add(f"{n}:dropout", d(x).data)
                elif k == "split":
                    X = np.arange(s["n"] * 2, dtype=np.float32).reshape(s["n"], 2)
                    y = np.arange(s["n"], dtype=np.float32)
                    tr, te, va = SG.data.split_dataset(X, y, test_split=s["test"], val_split=s["val"], shuffle=s.get("shuffle", True))
                    for name, part in (("train", tr), ("test", te), ("val", va)):
                        if part is not None:
                            H.add(f"{n}:split:{name}:X", part[0])
                            H.add(f"{n}:split:{name}:y", part[1])
                elif k == "train":
                    if s.get("deep"):
                        # a model with more than 64 parameter tensors, initialised by looping over model.parameters()
                        blocks = [nn.Linear(s["d"], s["h"])] + [nn.Linear(s["h"], s["h"]) for _ in range(s["deep"])]
                        model = nn.Sequential(*blocks, nn.ReLU(), nn.Dropout(s["p"]), nn.Linear(s["h"], s["c"]))
                        for p_ in model.parameters():
                            nn.init.uniform_(p_, -0.3, 0.3)
                    else:
                        model = nn.Sequential(nn.Linear(s["d"], s["h"]), nn.ReLU(), nn.Dropout(s["p"]), nn.Linear(s["h"], s["c"]))
                    opt = SG.optim.SGD(model.parameters(), lr=0.05, momentum=0.9) if s["opt"] == "SGD" else SG.optim.Adam(model.parameters(), lr=0.01)
                    loss_fn = nn.CrossEntropyLoss()
                    for step in range(s["steps"]):
                        xb = sg.randn(s["batch"], s["d"])
                        yb = sg.randint(0, s["c"], (s["batch"],))
                        out = model(xb)
                        loss = loss_fn(out, yb)
                        opt.zero_grad()
                        loss.backward()
                        opt.step()
                        H.add(f"{n}:train:loss{step}", loss.data)
                    for i, p in enumerate(model.parameters()):
                        H.add(f"{n}:train:p{i}", p.data)
                        H.add(f"{n}:train:g{i}", p.grad.data)
                elif k == "dag":
                    # a whole generated DAG program (any ops of the catalogue) in float32: forward and backward digests
                    from simkit.graph import Graph
                    from simkit.core import dec
                    def body(h, s=s):
                        G = Graph(SG)
                        for e in s["events"]:
                            try:
                                if e["k"] == "leaf":
                                    a = dec(e["data"])
                                    G.add_leaf(e["id"], SG.Tensor(a.astype(np.float32) if a.dtype.kind == "f" else a, requires_grad=e["rg"]))
                                elif e["k"] == "op" and G.has_inputs(e):
                                    for o, t in zip(e["out"], G.apply(e)):
                                        h.add(f"fw{o}", t.data)
                                elif e["k"] == "backward" and e["root"] in G.T and G.T[e["root"]].requires_grad:
                                    r = G.T[e["root"]]
                                    g = None if e["g"] is None else dec(e["g"]).astype(r.data.dtype)
                                    if (g is None and r.data.size == 1) or (g is not None and g.shape == r.data.shape):
                                        r.backward(None if g is None else SG.Tensor(g))
                                        for i in sorted(G.leaves()):
                                            if G.T[i]._grad is not None:
                                                h.add(f"g{i}", G.T[i]._grad)
                            except Exception as ex:
                                h.add("exc", np.frombuffer(type(ex).__name__.encode(), dtype=np.uint8))
                    repeat(n, s, body)
                elif k == "gather":
                    # bootstrap-style gather with repeated indices, then backward: rows never drawn must get exactly zero gradient
                    def body(h, s=s):
                        x = sg.Tensor(np.array(s["vals"], dtype=np.float32).reshape(s["shape"]), requires_grad=True)
                        y = x[list(s["idx"])]
                        (y * y).sum().backward() if s["reduce"] else y.backward(sg.Tensor(np.array(s["g"], dtype=np.float32).reshape(y.data.shape)))
                        h.add("fw", y.data)
                        h.add("gx", x.grad.data)
                        junk = [np.full(s["shape"], float(j) - 3.5, dtype=np.float32) for j in range(8)]      # unrelated allocations in between
                        del junk
                    repeat(n, s, body)
                elif k == "leafroot":
                    # backward() with the DEFAULT seed on a scalar leaf, then an accumulating sweep into it
                    def body(h, s=s):
                        t = sg.Tensor(np.array(s["v"], dtype=np.float32), requires_grad=True)
                        t.backward()
                        (t * float(s["c"])).backward()
                        u = sg.Tensor(np.array([s["v"], 1.0], dtype=np.float32), requires_grad=True)
                        u.sum().backward()
                        h.add("gt", t.grad.data)
                        h.add("gu", u.grad.data)
                    repeat(n, s, body)
                elif k == "sumorder":
                    # deterministic part: fixed data, a node with many contributions of spread magnitude, float32
                    def body(h, s=s):
                        vals = np.array(s["vals"], dtype=np.float32)
                        x = sg.Tensor(vals.copy(), requires_grad=True)
                        coef = s["coef"]
                        hidden = x if s.get("leaf_direct") else (x * np.float32(1.0)) * 1.0
                        parts = []
                        for c in coef:
                            parts.append(hidden * float(c))
                            if len(parts) % 2 == 0:
                                parts[-1] = parts[-1] + hidden * float(c) * 0.5
                        order = s["order"]
                        via = s.get("via", "add")
                        if via == "add":
                            total = None
                            for i in order:
                                q = parts[i].sum() if s["reduce"] else parts[i]
                                total = q if total is None else total + q
                        else:
                            # one operand four times (>= 3 contributions from ONE closure: their order must not depend on addresses) and the shared node itself
                            seq = [parts[i] for i in order] + [parts[order[0]], hidden, parts[order[0]], parts[order[0]]]
                            un = {}
                            for q in seq:
                                if id(q) not in un:
                                    un[id(q)] = q.unsqueeze(0)          # one unsqueezed tensor per distinct operand, so concat really sees repeats
                            joined = sg.stack(seq, 0) if via == "stack" else sg.concat([un[id(q)] for q in seq], 0)
                            w = sg.Tensor(np.array([[(1.0 + 0.37 * j) * (10.0 ** ((j * 5) % 7 - 3))] for j in range(len(seq))], dtype=np.float32))
                            total = (joined * w).sum(0)
                            if s["reduce"]:
                                total = total.sum()
                        if s["reduce"]:
                            total.backward()
                        else:
                            total.backward(sg.Tensor(np.array(s["g"], dtype=np.float32)))
                        h.add("fw", total.data)
                        h.add("gx", x.grad.data)
                    repeat(n, s, body)
                elif k == "conv":
                    # fixed data through a padded convolution / pooling (kernels that work on padded scratch arrays), forward and backward
                    def body(h, s=s):
                        x = sg.Tensor(np.array(s["x"], dtype=np.float32).reshape(s["xs"]), requires_grad=True)
                        if s["op"] in ("conv1d", "conv2d"):
                            w = sg.Tensor(np.array(s["w"], dtype=np.float32).reshape(s["ws"]), requires_grad=True)
                            y = (sg.conv1d if s["op"] == "conv1d" else sg.conv2d)(x, w, None, s["stride"], s["pad"], 1)
                        else:
                            w = None
                            y = getattr(sg, s["op"])(x, s["ks"], s["stride"], s["pad"])
                        (y * y).sum().backward()
                        h.add("fw", y.data)
                        h.add("gx", x.grad.data)
                        if w is not None:
                            h.add("gw", w.grad.data)
                    repeat(n, s, body)
                elif k == "bcast":
                    # an operand broadcast along two or more axes (a scalar temperature, a (1,C,1) scale/shift), float32, values that do
                    # not sum exactly: the reduction of its gradient over several axes must round the same way in every execution
                    def body(h, s=s):
                        x = sg.Tensor(np.array(s["x"], dtype=np.float32).reshape(s["xs"]), requires_grad=True)
                        p_ = sg.Tensor(np.array(s["p"], dtype=np.float32).reshape(s["ps"]), requires_grad=True)
                        q_ = sg.Tensor(np.array(s["q"], dtype=np.float32).reshape(s["ps"]), requires_grad=True)
                        y = (x * p_ + q_) if s["form"] == "affine" else (x / p_ - q_) if s["form"] == "div" else (x * p_) * (x + q_)
                        (y * y).sum().backward()
                        h.add("fw", y.data)
                        h.add("gp", p_.grad.data)
                        h.add("gq", q_.grad.data)
                        h.add("gx", x.grad.data)
                    repeat(n, s, body)
                elif k == "onehot":
                    # class NAMES as labels: the column order must not depend on string hashing
                    labels = s["labels"] if s.get("as") == "list" else np.array(s["labels"])
                    H.add(f"{n}:onehot", np.asarray(SG.data.one_hot_encode(labels)))
                elif k == "bn":
                    # BatchNorm layers (cumulative or exponential running statistics) fed alternately in training mode, then evaluated
                    layers = [nn.BatchNorm1d(s["c"], momentum=s["momentum"]) for _ in range(s["layers"])]
                    for step in range(s["steps"]):
                        for j, bn in enumerate(layers):
                            out = bn(sg.randn(s["batch"], s["c"]))
                            H.add(f"{n}:bn{j}:out{step}", out.data)
                    for j, bn in enumerate(layers):
                        bn.eval()
                        H.add(f"{n}:bn{j}:rm", bn.running_mean.data)
                        H.add(f"{n}:bn{j}:rv", bn.running_var.data)
                        H.add(f"{n}:bn{j}:eval", bn(sg.ones(2, s["c"])).data)
    finally:
        time.time, os.urandom, np.random.default_rng = saved
    return H.h.hexdigest(), det


class ReproSim(Sim):
    PROP = "C19"
    NAME = "reprosim"
    QUICK_RUNS = 160
    THOROUGH_RUNS = 10000
    MAX_EVENTS = 1
    RUN_TIMEOUT = 300
    SELFTEST_RUNS = 6
    PROBES = ["rand_family", "init_family", "layer_constructor", "dropout", "shuffled_split", "training_steps", "sumorder_float32", "generated_dag_program_float32", "gather_repeated_indices", "default_seed_on_scalar_leaf", "special_seed", "fresh_process_hashseed_0",
              "fresh_process_hashseed_1", "fresh_process_hashseed_random", "heap_displaced", "in_process_twice", "repetitions_without_reseed",
              "padded_conv_or_pool_float32", "batch_norm_running_statistics", "interrupted_execution_between_repetitions", "in_process_four_times_with_gc",
              "one_hot_of_class_names", "random_tensor_with_explicit_float64", "operand_broadcast_along_several_axes", "work_done_before_seeding"]
    RULE = ("one run = one generated program over the random-consuming APIs + training steps + float32 multi-contribution graphs, executed over the "
            "matrix (twice in-process, 3 fresh interpreters with different PYTHONHASHSEED / heap layout, r repetitions of the deterministic part); "
            "distinct = multiset of APIs used x matrix; non-trivial = the program consumed randomness and was executed in a fresh process")
    REAL = Sim.REAL + ["fresh CPython interpreters (subprocess) with explicit PYTHONHASHSEED"]

    def knobs(self, rng, tier):
        return {"max_events": 1}

    def start(self, knobs):
        st = RunState(knobs)
        st.SG = env.load()
        return st

    def gen(self, rng, st):
        steps = []

        def dims(lo, hi, rank):
            # now and then a LARGE tensor: size-dependent fast paths are legal places for a seed bypass
            if rng.random() < 0.2:
                return [rng.choice([260, 300, 512])] + [rng.choice([257, 300])] + [1] * (rank - 2) if rank >= 2 else [rng.choice([70000, 100000])]
            return [rng.randint(lo, hi) for _ in range(rank)]
        for _ in range(rng.randint(3, 9)):
            k = rng.choice(["rand", "rand", "init", "layer", "dropout", "split", "train", "sumorder", "sumorder", "dag", "dag", "gather", "leafroot", "conv", "conv", "bn", "onehot", "bcast", "bcast"])
            if k == "rand":
                fn = rng.choice(["rand", "randn", "normal", "randint"])
                s = {"k": "rand", "fn": fn, "shape": dims(1, 4, rng.randint(1, 3))}
                if fn != "randint":
                    u = rng.random()
                    if u < 0.3:
                        s["f64"] = True           # an explicit dtype: legal places for a separate generator
                    elif u < 0.4:
                        s["f32"] = True
                if fn == "normal":
                    s.update(loc=rng.choice([0.0, 1.5]), scale=rng.choice([1.0, 0.2]))
                if fn == "randint":
                    s.update(low=0, high=rng.randint(2, 10))
            elif k == "init":
                s = {"k": "init", "fn": rng.choice(INITS), "shape": dims(2, 5, 2) + ([rng.randint(1, 3)] if rng.random() < 0.3 else [])}
            elif k == "layer":
                kind = rng.choice(["Linear", "Conv1d", "Conv2d"])
                big = rng.random() < 0.15
                s = {"k": "layer", "kind": kind, "a": rng.randint(200, 300) if big else rng.randint(1, 5), "b": rng.randint(250, 400) if big else rng.randint(1, 5), "c": rng.randint(1, 3)}
            elif k == "dropout":
                s = {"k": "dropout", "p": rng.choice([0.1, 0.5, 0.9]), "shape": dims(2, 6, 2)}
            elif k == "split":
                s = {"k": "split", "n": rng.choice([rng.randint(4, 20), 12, 12, 5000]), "test": rng.choice([0.2, 0.5]), "val": rng.choice([None, 0.25]), "shuffle": rng.random() < 0.7}
            elif k == "gather":
                rows = rng.randint(3, 8)
                shape = [rows] + ([rng.randint(1, 3)] if rng.random() < 0.6 else [])
                m = rows if rng.random() < 0.6 else rng.randint(1, 2 * rows)         # often exactly as many draws as rows (a bootstrap resample)
                idx = [rng.randrange(rows) for _ in range(m)]
                nel = int(np.prod(shape))
                s = {"k": "gather", "shape": shape, "vals": [round(rng.uniform(-3, 3), 3) for _ in range(nel)], "idx": idx, "reduce": rng.random() < 0.5,
                     "g": [round(rng.uniform(-2, 2), 3) for _ in range(m * (shape[1] if len(shape) > 1 else 1))], "reps": rng.randint(2, 3)}
            elif k == "conv":
                op = rng.choice(["conv1d", "conv1d", "conv2d", "max_pool1d", "avg_pool1d", "max_pool2d", "avg_pool2d"])
                two = op.endswith("2d")
                N, C, L = rng.randint(1, 2), rng.randint(1, 3), rng.randint(4, 7)
                xs = [N, C, L, L] if two else [N, C, L]
                ks = rng.randint(2, 3)
                xv = [round(rng.uniform(-3, 3), 3) for _ in range(int(np.prod(xs)))]
                if rng.random() < 0.5:
                    # flat regions (the zero background of an image, saturated pixels): ties inside pooling windows
                    flat = rng.choice([0.0, 0.0, 1.0, -2.0])
                    start = rng.randrange(len(xv))
                    for q in range(start, min(len(xv), start + rng.randint(len(xv) // 3, len(xv)))):
                        xv[q] = flat
                s = {"k": "conv", "op": op, "xs": xs, "x": xv, "ks": ks, "stride": rng.randint(1, 2),
                     "pad": rng.randint(1, ks // 2) if not op.startswith("conv") else rng.randint(1, 2), "reps": rng.randint(2, 3)}
                if op.startswith("conv"):
                    s["ws"] = [rng.randint(1, 3), C, ks, ks] if two else [rng.randint(1, 3), C, ks]
                    s["w"] = [round(rng.uniform(-2, 2), 3) for _ in range(int(np.prod(s["ws"])))]
            elif k == "bcast":
                rank = rng.choice([2, 3, 3, 4])
                xs = [rng.randint(3, 9) for _ in range(rank)]
                ps = rng.choice([[1], [1] * rank, [1 if (i != 1) else xs[1] for i in range(rank)], [1 if i < rank - 1 else xs[-1] for i in range(rank)]])
                nx, npar = int(np.prod(xs)), int(np.prod(ps))
                s = {"k": "bcast", "xs": xs, "ps": ps, "form": rng.choice(["affine", "div", "prod"]), "reps": rng.randint(2, 3),
                     "x": [round(rng.uniform(-3, 3), 4) for _ in range(nx)], "p": [round(rng.uniform(0.5, 2.5), 4) for _ in range(npar)], "q": [round(rng.uniform(-1, 1), 4) for _ in range(npar)]}
            elif k == "onehot":
                names = rng.sample(["cat", "dog", "bird", "ant", "zebra", "Yak", "b", "a10", "a9", "cow", "emu", "fox"], rng.randint(2, 7))
                s = {"k": "onehot", "labels": [rng.choice(names) for _ in range(rng.randint(2, 12))], "as": rng.choice(["array", "list"])}
            elif k == "bn":
                s = {"k": "bn", "c": rng.randint(1, 4), "momentum": rng.choice([None, None, 0.1, 0.5]), "layers": rng.randint(1, 2), "steps": rng.randint(1, 3), "batch": rng.randint(2, 5)}
            elif k == "leafroot":
                s = {"k": "leafroot", "v": round(rng.uniform(-3, 3), 3), "c": rng.choice([3.0, -2.0, 0.5]), "reps": rng.randint(2, 3)}
            elif k == "dag":
                from sims.progsim import ProgSim
                from simkit.runner import run_generated
                pst = run_generated(ProgSim(), rng.randrange(2 ** 31), rng.randrange(10 ** 6), "quick")
                evs = [e for e in pst.events if e["k"] in ("leaf", "op", "backward")]
                for e in evs:
                    e.pop("fault", None)
                s = {"k": "dag", "events": evs, "reps": rng.randint(1, 2)}
            elif k == "train":
                big = rng.random() < 0.15
                s = {"k": "train", "d": rng.randint(2, 5), "h": 300 if big else rng.randint(2, 6), "c": rng.randint(2, 4), "p": rng.choice([0.0, 0.3]), "batch": 256 if big else rng.randint(2, 6),
                     "steps": rng.randint(1, 4), "opt": rng.choice(["SGD", "Adam"])}
                if not big and rng.random() < 0.25:
                    s["deep"] = rng.randint(33, 40)
                    s["h"] = rng.randint(2, 3)
            else:
                m = rng.randint(3, 7)
                n = rng.randint(1, 4)
                s = {"k": "sumorder", "vals": [round(rng.uniform(-3, 3), 3) for _ in range(n)], "coef": [rng.choice([1e-3, 3e-2, 0.7, 11.0, 1e3, -2e2, 5e-3]) * rng.uniform(0.5, 1.5) for _ in range(m)],
                     "order": rng.sample(range(m), m), "reduce": rng.random() < 0.5, "g": [round(rng.uniform(-2, 2), 3) for _ in range(n)], "reps": rng.randint(1, 3),
                     "via": rng.choice(["add", "stack", "concat"]), "leaf_direct": rng.random() < 0.3}
            if s.get("reps", 1) > 1 and rng.random() < (0.7 if k == "conv" else 0.4):
                # the crash point, as a fraction of the execution's length in line events
                s["fault_between"] = {"kind": rng.choice(["alloc", "interrupt", "exit"]), "frac": round(rng.uniform(0.02, 0.99), 4)}
            steps.append(s)
        seed = rng.choice([0, 1, 2 ** 32 - 1, 42]) if rng.random() < 0.15 else rng.randrange(2 ** 31)      # all seeds, also the unusual ones
        return {"k": "program", "seed": seed, "steps": steps, "hashseeds": ["0", "1", str(rng.randrange(1, 2 ** 31))], "junk": rng.choice([0, 2000, 20000]),
                "warmup": rng.choice([0, 0, 3, 17])}

    def simplify(self, events):
        if len(events) != 1:
            return
        ev = events[0]
        for i in range(len(ev["steps"])):
            if len(ev["steps"]) > 1:
                e2 = dict(ev)
                e2["steps"] = ev["steps"][:i] + ev["steps"][i + 1:]
                yield [e2]

    def _fresh(self, spec, hashseed, junk):
        cmd = [sys.executable, os.path.abspath(__file__), str(junk)]
        e = dict(os.environ, PYTHONHASHSEED=hashseed)
        r = subprocess.run(cmd, input=json.dumps(spec), capture_output=True, text=True, env=e, timeout=240)
        if r.returncode != 0:
            return None, (r.stdout + r.stderr)[-500:]
        return r.stdout.strip().split("\n")[-1], None

    def apply(self, st, ev):
        spec = {"seed": ev["seed"], "steps": ev["steps"], "warmup": ev.get("warmup", 0)}
        if spec["warmup"]:
            st.probes["work_done_before_seeding"] += 1
        kinds = sorted({s["k"] + ":" + s.get("fn", s.get("kind", "")) for s in ev["steps"]})
        st.sig = kinds + [str(ev["junk"])]
        for s in ev["steps"]:
            st.probes[{"rand": "rand_family", "init": "init_family", "layer": "layer_constructor", "dropout": "dropout", "split": "shuffled_split",
                       "train": "training_steps", "sumorder": "sumorder_float32", "dag": "generated_dag_program_float32", "gather": "gather_repeated_indices",
                       "leafroot": "default_seed_on_scalar_leaf", "conv": "padded_conv_or_pool_float32", "bn": "batch_norm_running_statistics",
                       "onehot": "one_hot_of_class_names", "bcast": "operand_broadcast_along_several_axes"}[s["k"]]] += 1
            if s.get("f64"):
                st.probes["random_tensor_with_explicit_float64"] += 1
            if s.get("fault_between"):
                st.probes["interrupted_execution_between_repetitions"] += 1
        if ev["seed"] in (0, 1, 2 ** 32 - 1):
            st.probes["special_seed"] += 1
        used = []
        try:
            flog = []
            d1, det1 = run_program(spec, st.SG, used, flog)
            for kind in flog:
                st.faults["between_repetitions_line_" + kind] += 1
            d2, det2 = run_program(spec, st.SG, used)
            if any(s["k"] in ("train", "bn", "conv") for s in ev["steps"]):
                # two more executions with the garbage of the earlier ones collected and the heap disturbed in between (freed addresses
                # are handed out again: anything keyed by object identity would now meet "old friends")
                import gc
                for extra in range(2):
                    gc.collect()
                    junk = [np.zeros(3 + (j % 5), dtype=np.float32) for j in range(50 * (extra + 1))]
                    dx, _ = run_program(spec, st.SG, used)
                    del junk
                    if dx != d1:
                        d2 = dx
                st.probes["in_process_four_times_with_gc"] += 1
        except Exception as e:
            st.fail("C19.program_raises", f"the program raised {type(e).__name__}: {e}")
        st.probes["in_process_twice"] += 1
        cause = f" (the library read {sorted(set(used))} while running)" if used else ""
        if d1 != d2:
            st.fail("C19.same_process", f"two executions after manual_seed({ev['seed']}) in one process produced different tensors/gradients/parameters{cause}")
        # (c) repetitions of the deterministic part without re-seeding
        by_step = {}
        for n, rep, h in det1:
            by_step.setdefault(n, []).append(h)
        for n, hs in by_step.items():
            if len(hs) > 1:
                st.probes["repetitions_without_reseed"] += 1
            if len(set(hs)) > 1:
                st.fail("C19.repetition", f"step {n}: forward/backward of a fixed program on fixed data changed between repetitions in one process{cause}")
        # (b) fresh interpreters
        for n, hseed in enumerate(ev["hashseeds"]):
            junk = ev["junk"] if n else 0
            d, err = self._fresh(spec, hseed, junk)
            if d is None:
                raise env.HarnessError(f"fresh interpreter failed: {err}")
            st.probes["fresh_process_hashseed_" + ("0" if hseed == "0" else "1" if hseed == "1" else "random")] += 1
            if junk:
                st.probes["heap_displaced"] += 1
            st.nontrivial = True
            if d != d1:
                st.fail("C19.fresh_process", f"a fresh interpreter (PYTHONHASHSEED={hseed}, {junk} junk allocations before import) produced different "
                        f"tensors/gradients/parameters than this process after the same manual_seed({ev['seed']}){cause}", hashseed=hseed, junk=junk)
        st.obs("digest", d1)


if __name__ == "__main__":
    spec = json.loads(sys.stdin.read())
    np.seterr(all="ignore")
    print(run_program(spec)[0])
