"""itersim - C05, scoped to its stateful clause: "indexing and iteration over the first
dimension ... several simultaneous or nested iterations over one tensor".

What an iteration yields must not depend on what other consumers of the same tensor do
in between: that is a schedule.  World: tensors of rank 0-4 with first dimension 0-5;
consumers: explicit iter()/next() cursors (several live at once over one tensor, the
seeded scheduler picks which advances, which is abandoned (F6), when one is restarted),
real nested `for` loops to depth 3 over the same and over different tensors, list(),
zip(t, t), tuple unpacking, len(), t[i], t[i:j] interleaved with live iterations, and
rows taking part in a backward.

Oracle (IterModel): every iter(t) is an independent cursor yielding t[0] ... t[n-1] (as
t[i] returns them) and then StopIteration, whatever other cursors do; rank-0 tensors refuse
iteration.  Everything else in C05 (values/shapes of every op over its argument space) is a
pure function of the call and is NOT decided here.

Not asserted: identity of yielded objects, whether the iterator is the tensor itself,
next(t) on a tensor without iter().
"""
import numpy as np

from simkit.core import RunState, Sim, enc, dec, small_values
from simkit.world import World, quiet


class IterSim(Sim):
    PROP = "C05"
    NAME = "itersim"
    QUICK_RUNS = 80000
    THOROUGH_RUNS = 600000
    MAX_EVENTS = 40
    RUN_TIMEOUT = 20
    PROBES = ["two_live_cursors_one_tensor", "three_live_cursors", "nested_for_same_tensor", "nested_for_depth3", "nested_for_two_tensors",
              "zip_same_tensor", "list_during_live_iteration", "getitem_during_live_iteration", "abandoned_then_restarted", "exhausted_cursor_polled_again",
              "rank0_refuses_iteration", "empty_first_dim", "rows_in_backward", "unpack", "len_during_iteration", "iteration_of_op_result",
              "state_changed_between_iterations", "iteration_of_strided_view", "several_rows_held", "index_kind_bool", "index_kind_out_of_range", "index_kind_float",
              "index_kind_slice_step", "index_kind_index_array", "index_kind_mask", "index_kind_int_list", "mask_key_on_tracked_tensor", "index_results_kept", "kept_row_given_values_of_its_own", "index_array_reused", "iterator_passed_to_iter_again", "advanced_iterator_consumed_by_loop"]
    RULE = ("one run = tensors plus a seeded interleaving of iter/next/drop on several cursors with nested for-loops, list/zip/unpack/len/index "
            "events; distinct = hash of (number of cursors, order of new/next/drop and loop events); non-trivial = two cursors over one tensor "
            "were live at once, or a nested loop over one tensor ran")
    ASSUMPTIONS = ["rows are compared with what t[i] returns now (the indexing result itself is the pure part of C05, not decided here)"]

    def knobs(self, rng, tier):
        soak = rng.random() < 0.002        # one long-running program: thousands of iterations and lookups over a few tensors, results kept
        return {"max_events": rng.randint(1500, 2500) if soak else rng.randint(6, 40), "n_tensors": rng.randint(2, 3) if soak else rng.randint(1, 3), "soak": soak}

    def start(self, knobs):
        st = RunState(knobs)
        st.world = World()
        st.SG = st.world.SG
        st.T = {}
        st.its = {}      # it -> {"obj", "t", "pos", "done"}
        st.keys = {}     # kid -> index array owned by the caller
        st.next_it = 0
        return st

    # ------------------------------------------------------------------ generation
    def gen(self, rng, st):
        kn = st.knobs
        if len(st.T) < kn["n_tensors"]:
            rank = rng.choice([0, 1, 1, 2, 2, 3, 4])
            shape = tuple([rng.randint(0, 5)] + [rng.randint(1, 3) for _ in range(rank - 1)]) if rank else ()
            return {"k": "tensor", "id": len(st.T), "data": enc(small_values(rng, shape, np.float64 if rng.random() < 0.5 else np.float32, -4, 4)),
                    "rg": rng.random() < 0.4, "derive": rng.choice([None, None, None, "mul1", "transpose", "colslice", "movedim"])}
        tids = sorted(st.T)
        live = sorted(st.its)
        if kn.get("soak"):
            u = rng.random()
            if u < 0.30:
                # the same kind of lookup again and again, every result kept by the program (a batch sampler that stores its mini-batches)
                t = rng.choice([i for i in tids if st.T[i].data.ndim >= 1 and st.T[i].data.shape[0] >= 2] or tids)
                n = st.T[t].data.shape[0] if st.T[t].data.ndim else 0
                if n >= 2:
                    return {"k": "gather_hold", "t": t, "idx": [rng.randrange(n) for _ in range(3)], "as": rng.choice(["list", "array"])}
            elif u < 0.45:
                return {"k": "list", "t": rng.choice(tids)}
            elif u < 0.50 and len(live) > 6:
                return {"k": "iter_drop", "it": rng.choice(live)}
        if rng.random() < 0.04:
            t = rng.choice(tids)
            n = st.T[t].data.shape[0] if st.T[t].data.ndim else 0
            if n:
                # a row is taken out and kept; later it gets values of its own through a documented call (an initialiser re-binds its data):
                # the tensor it came from must go on showing ITS rows
                return {"k": "hold_row", "t": t, "i": rng.randrange(n), "then_init": rng.random() < 0.6}
        r = rng.random()
        if r < 0.22 or not live:
            return {"k": "iter_new", "it": st.next_it, "t": rng.choice(tids)}
        if r < 0.58:
            return {"k": "iter_next", "it": rng.choice(live)}
        if r < 0.62:
            # the iterator object itself is handed to iter() / a for-loop / list() after it was advanced (skip a header row, then loop over the rest)
            return {"k": "iter_resume", "it": rng.choice(live), "how": rng.choice(["iter", "for_rest", "list_rest", "for_break"]), "take": rng.randint(1, 2)}
        if r < 0.67:
            return {"k": "iter_drop", "it": rng.choice(live)}
        if r < 0.75:
            d = rng.choice([2, 2, 3])
            return {"k": "nested_for", "ts": [rng.choice(tids) for _ in range(d)] if rng.random() < 0.4 else [rng.choice(tids)] * d}
        if r < 0.80:
            return {"k": "list", "t": rng.choice(tids)}
        if r < 0.85:
            return {"k": "zip", "a": rng.choice(tids), "b": rng.choice(tids) if rng.random() < 0.3 else None}
        if r < 0.89:
            t = rng.choice(tids)
            n = st.T[t].data.shape[0] if st.T[t].data.ndim else 0
            kind = rng.choice(["int", "int", "slice", "bool", "npint", "out_of_range", "float", "none", "ellipsis", "slice_step", "slice_step", "index_array", "index_array",
                               "mask", "mask", "int_list"])
            if kind == "mask":
                # a row mask: as a Python list or as a boolean array, of the right length or (must be refused) of another length
                m = n if rng.random() < 0.7 else rng.choice([max(0, n - 1), n + 1, 1, n + 2])
                return {"k": "getitem", "t": t, "kind": kind, "i": 0, "j": 0, "mask": [rng.random() < 0.5 for _ in range(m)], "as": rng.choice(["list", "array"])}
            if kind == "int_list":
                return {"k": "getitem", "t": t, "kind": kind, "i": 0, "j": 0, "vals": [rng.randrange(-n, n) if n else 0 for _ in range(rng.randint(0, 4))]}
            if kind == "slice_step":
                lim = [None, None] + list(range(-n - 2, n + 3))
                return {"k": "getitem", "t": t, "kind": kind, "i": 0, "j": 0, "key": [rng.choice(lim), rng.choice(lim), rng.choice([-1, -1, -2, -3, 2, 3, None])]}
            if kind == "index_array":
                # an index array the caller keeps and re-uses for several lookups (possibly with negative or out-of-range entries)
                if getattr(st, "keys", None) and rng.random() < 0.5:
                    return {"k": "getitem", "t": t, "kind": kind, "i": 0, "j": 0, "kid": rng.choice(sorted(st.keys))}
                m = rng.randint(1, 4)
                lo, hi = (-n, n - 1) if (n and rng.random() < 0.7) else (-n - 2, n + 1)
                return {"k": "getitem", "t": t, "kind": kind, "i": 0, "j": 0, "kid": len(getattr(st, "keys", {})),
                        "vals": [rng.randint(lo, hi) for _ in range(m)], "dt": rng.choice(["i8", "i8", "i4"])}
            i = rng.randrange(-n, n) if n else 0
            if kind == "out_of_range":
                i = rng.choice([n, n + 1, -n - 1, -2 * n, -2 * n - 1, 2 * n]) if n else 0
            return {"k": "getitem", "t": t, "i": i, "j": rng.randint(0, n) if n else 0, "kind": kind, "b": rng.random() < 0.5}
        if r < 0.91:
            return {"k": "len", "t": rng.choice(tids)}
        if r < 0.93:
            return {"k": "unpack", "t": rng.choice(tids), "star": rng.random() < 0.4}
        if r < 0.96:
            return {"k": "rows_backward", "t": rng.choice(tids)}
        # the tensor's state changes between (or during) iterations through documented calls: later iterations must show the CURRENT rows
        return {"k": "mutate", "t": rng.choice(tids), "how": rng.choice(["init", "rebind", "step", "set_rg", "no_grad_pass"]), "seed": rng.randrange(10 ** 6)}

    # ------------------------------------------------------------------ helpers
    def _rows(self, t):
        """reference rows: what t[i] returns, for i in range(n)"""
        n = t.data.shape[0]
        return [self._row(t, i) for i in range(n)]

    def _row(self, t, i):
        try:
            with quiet():
                r = t[i]
        except Exception as e:
            self._st.fail("C05.indexing", f"t[{i}] on a tensor with first dimension {t.data.shape[0]} raised {type(e).__name__}: {e}")
        if r.data.shape != t.data[i].shape:
            self._st.fail("C05.indexing", f"t[{i}] on a tensor of shape {t.data.shape} returned shape {r.data.shape}, NumPy gives {t.data[i].shape}")
        return r

    def _same(self, a, ref):
        return (a.data.shape == ref.data.shape and a.data.dtype == ref.data.dtype and a.data.tobytes() == ref.data.tobytes()
                and bool(a.requires_grad) == bool(ref.requires_grad))

    def _live_on(self, st, t):
        return [i for i, c in st.its.items() if c["t"] == t and not c["done"]]

    # ------------------------------------------------------------------ events
    def apply(self, st, ev):
        self._st = st
        st.sig.append(ev["k"])
        getattr(self, "_ev_" + ev["k"])(st, ev)

    def _ev_tensor(self, st, ev):
        SG = st.SG
        t = SG.Tensor(dec(ev["data"]), requires_grad=ev["rg"])
        d = ev.get("derive")
        if d in (True, "mul1") and t.data.ndim >= 1:
            t = t * 1.0        # an op result instead of a leaf
            st.probes["iteration_of_op_result"] += 1
        elif d == "transpose" and t.data.ndim >= 2:
            t = t.transpose(0, 1)                 # a non-contiguous view
            st.probes["iteration_of_strided_view"] += 1
        elif d == "movedim" and t.data.ndim >= 3:
            t = t.movedim(0, -1)
            st.probes["iteration_of_strided_view"] += 1
        elif d == "colslice" and t.data.ndim >= 2 and t.data.shape[1] >= 2:
            t = st.must("C05.indexing", "t[:, ::2]", lambda: t[:, ::2])
            st.probes["iteration_of_strided_view"] += 1
        st.T[ev["id"]] = t

    def _ev_iter_new(self, st, ev):
        t = st.T.get(ev["t"])
        if t is None:
            st.skipped += 1
            return
        if t.data.ndim == 0:
            try:
                it = iter(t)
                first = next(it)
            except StopIteration:
                st.fail("C05.rank0_iteration", "iterating a 0-d tensor yielded nothing instead of being refused")
            except Exception:
                st.probes["rank0_refuses_iteration"] += 1
                return
            st.fail("C05.rank0_iteration", "a 0-d tensor was iterated without an error")
        live_before = self._live_on(st, ev["t"])
        had_partial = any(0 < st.its[i]["pos"] for i in live_before)
        obj = st.must("C05.iter_raises", "iter(tensor)", iter, t)
        st.its[ev["it"]] = {"obj": obj, "t": ev["t"], "pos": 0, "done": False}
        st.next_it = max(st.next_it, ev["it"] + 1)
        n_live = len(self._live_on(st, ev["t"]))
        if n_live >= 2:
            st.probes["two_live_cursors_one_tensor"] += 1
            st.nontrivial = True
        if n_live >= 3:
            st.probes["three_live_cursors"] += 1
        if t.data.shape[0] == 0:
            st.probes["empty_first_dim"] += 1

    def _ev_iter_next(self, st, ev):
        c = st.its.get(ev["it"])
        if c is None:
            st.skipped += 1
            return
        t = st.T[c["t"]]
        n = t.data.shape[0]
        try:
            with quiet():
                row = next(c["obj"])
        except StopIteration:
            if c["pos"] < n:
                st.fail("C05.iteration", f"cursor {ev['it']} over tensor {c['t']} (n={n}) stopped after {c['pos']} rows "
                        f"({len(self._live_on(st, c['t']))} cursors live on that tensor)", tensor=c["t"])
            if c["done"]:
                st.probes["exhausted_cursor_polled_again"] += 1
            c["done"] = True
            return
        except Exception as e:
            st.fail("C05.iteration", f"next() on cursor {ev['it']} raised {type(e).__name__}: {e}")
        if c["pos"] >= n:
            st.fail("C05.iteration", f"cursor {ev['it']} over tensor {c['t']} (n={n}) yielded a row after it was exhausted", tensor=c["t"])
        ref = self._row(t, c["pos"])
        if not self._same(row, ref):
            st.fail("C05.iteration", f"cursor {ev['it']} over tensor {c['t']}: item #{c['pos']} is not row {c['pos']} "
                    f"({len(self._live_on(st, c['t']))} cursors live on that tensor)", tensor=c["t"], got=row.data.tolist(), want=ref.data.tolist())
        # rows already handed out must stay what they were when the cursor moves on (several rows of one iteration held at once)
        held = c.setdefault("held", [])
        for k, old in enumerate(held):
            if not self._same(old, self._row(t, k)):
                st.fail("C05.iteration", f"cursor {ev['it']} over tensor {c['t']}: row {k}, yielded earlier and still held, changed when the cursor advanced "
                        f"to row {c['pos']}", tensor=c["t"])
        held.append(row)
        if len(held) >= 2:
            st.probes["several_rows_held"] += 1
        c["pos"] += 1

    def _ev_iter_resume(self, st, ev):
        c = st.its.get(ev["it"])
        if c is None:
            st.skipped += 1
            return
        t = st.T[c["t"]]
        n = t.data.shape[0]
        how = ev["how"]
        pos = c["pos"]
        if how == "iter":
            # iter(iterator) is the iterator protocol's "return self": the cursor goes on where it was
            c["obj"] = st.must("C05.iteration", "iter(iterator)", iter, c["obj"])
            st.probes["iterator_passed_to_iter_again"] += 1
            return
        got = []
        try:
            with quiet():
                if how == "list_rest":
                    got = list(c["obj"])
                else:
                    for row in c["obj"]:
                        got.append(row)
                        if how == "for_break" and len(got) >= ev["take"]:
                            break
        except Exception as e:
            st.fail("C05.iteration", f"looping over an advanced iterator raised {type(e).__name__}: {e}")
        st.probes["advanced_iterator_consumed_by_loop"] += 1
        if pos > 0:
            st.nontrivial = True
        want_n = (n - pos) if how != "for_break" else min(ev["take"], n - pos)
        if c["done"]:
            want_n = 0
        if len(got) != max(0, want_n):
            st.fail("C05.iteration", f"an iterator over tensor {c['t']} (n={n}) that had yielded {pos} rows gave {len(got)} more rows to a "
                    f"{'for-loop' if how != 'list_rest' else 'list()'}, expected {max(0, want_n)} (the rest)", tensor=c["t"])
        for k, row in enumerate(got):
            if not self._same(row, self._row(t, pos + k)):
                st.fail("C05.iteration", f"an iterator over tensor {c['t']} that had yielded {pos} rows continued with something else than row {pos + k}", tensor=c["t"])
        c["pos"] = pos + len(got)
        c.setdefault("held", []).extend(got)
        if how != "for_break" or len(got) < ev["take"]:
            c["done"] = True          # the loop ran the iterator to exhaustion

    def _check_held(self, st, limit=40):
        held = getattr(st, "held", [])
        for rec in held[-limit:] + held[:3]:
            if rec["res"].data.tobytes() != rec["bytes"]:
                st.fail("C05.indexing", f"a result of t[{rec['key']!r}] that the program kept changed later, although neither it nor the tensor was modified "
                        f"({len(held)} results kept)", tensor=rec["t"])

    def _ev_gather_hold(self, st, ev):
        t = st.T.get(ev["t"])
        if t is None or t.data.ndim == 0 or t.data.shape[0] < 2:
            st.skipped += 1
            return
        idx = [i % t.data.shape[0] for i in ev["idx"]]
        key = idx if ev.get("as") == "list" else np.array(idx, dtype=np.int64)
        res = st.must("C05.indexing", "t[index list]", lambda: t[key])
        want = t.data[idx]
        if res.data.shape != want.shape or not np.allclose(np.asarray(res.data, dtype=np.float64), np.asarray(want, dtype=np.float64), rtol=1e-6, atol=1e-30):
            st.fail("C05.indexing", f"t[{idx}] did not return those rows", tensor=ev["t"])
        if not hasattr(st, "held"):
            st.held = []
        st.held.append({"t": ev["t"], "key": idx, "res": res, "bytes": res.data.tobytes()})
        st.probes["index_results_kept"] += 1
        self._check_held(st)
        if len(st.held) % 200 == 0:
            self._check_held(st, limit=len(st.held))

    def _ev_hold_row(self, st, ev):
        t = st.T.get(ev["t"])
        if t is None or t.data.ndim == 0 or t.data.shape[0] == 0:
            st.skipped += 1
            return
        i = ev["i"] % t.data.shape[0]
        row = self._row(t, i)
        if ev.get("then_init") and row.data.ndim >= 1 and row.data.dtype.kind == "f":
            try:
                with quiet():
                    st.SG.init.zeros_(row)
            except Exception:
                st.notes["init_on_row_rejected"] += 1
                return
            st.probes["kept_row_given_values_of_its_own"] += 1
        st.__dict__.setdefault("kept_rows", []).append(row)
        del st.kept_rows[:-8]
        # the tensor still shows its own rows (compared with its data)
        again = self._row(t, i)
        want = t.data[i]
        if not np.allclose(np.asarray(again.data, dtype=np.float64), np.asarray(want, dtype=np.float64), rtol=1e-6, atol=1e-30):
            st.fail("C05.indexing", f"t[{i}] no longer returns the tensor's own row after an earlier result of t[{i}] was given values of its own", tensor=ev["t"])
        rows = st.must("C05.iteration", "list(tensor)", list, t)
        if len(rows) != t.data.shape[0] or not np.allclose(np.asarray(rows[i].data, dtype=np.float64), np.asarray(want, dtype=np.float64), rtol=1e-6, atol=1e-30):
            st.fail("C05.iteration", f"iterating the tensor no longer yields its own row {i} after an earlier t[{i}] was given values of its own", tensor=ev["t"])

    def _ev_iter_drop(self, st, ev):
        c = st.its.pop(ev["it"], None)
        if c is None:
            st.skipped += 1
            return
        if 0 < c["pos"] and not c["done"]:
            st.probes["abandoned_then_restarted"] += 1

    def _ev_mutate(self, st, ev):
        SG = st.SG
        t = st.T.get(ev["t"])
        if t is None or t.data.ndim == 0 or t.data.shape[0] == 0:
            st.skipped += 1
            return
        how = ev["how"]
        rs = np.random.RandomState(ev["seed"])
        leaf = t.grad_fn is None
        try:
            with quiet():
                if how == "init":
                    saved = np.random.get_state()
                    np.random.seed(ev["seed"])
                    SG.init.uniform_(t, -3.0, 3.0)
                    np.random.set_state(saved)
                elif how == "rebind":
                    t.data = (rs.randint(-8, 8, size=t.data.shape) / 4.0).astype(t.data.dtype)
                elif how == "step" and leaf and t.requires_grad:
                    t.zero_()
                    t._grad += 1.0
                    SG.optim.SGD([t], lr=0.25).step()
                elif how == "set_rg" and leaf:
                    t.requires_grad = not t.requires_grad
                elif how == "no_grad_pass":
                    with SG.sg.no_grad():
                        rows = list(t)
                    del rows
                else:
                    st.skipped += 1
                    return
        except Exception as e:
            st.notes["mutate_rejected"] += 1
            return
        st.probes["state_changed_between_iterations"] += 1
        # Whether a cursor that was ALREADY live sees the old or the new rows is not prescribed (rows may be taken eagerly at iter()
        # time, as torch does, or lazily at next() time): such cursors are abandoned.  Iterations started from now on must show the
        # current rows.
        for i in [i for i, c in st.its.items() if c["t"] == ev["t"]]:
            del st.its[i]

    def _ev_nested_for(self, st, ev):
        ts = [st.T.get(i) for i in ev["ts"]]
        if any(t is None or t.data.ndim == 0 for t in ts):
            st.skipped += 1
            return
        got = []
        try:
            with quiet():
                if len(ts) == 2:
                    for a in ts[0]:
                        for b in ts[1]:
                            got.append((a, b))
                else:
                    for a in ts[0]:
                        for b in ts[1]:
                            for c in ts[2]:
                                got.append((a, b, c))
        except Exception as e:
            st.fail("C05.nested_iteration", f"nested for-loops raised {type(e).__name__}: {e}")
        if len(set(ev["ts"])) == 1:
            st.probes["nested_for_same_tensor"] += 1
            st.nontrivial = True
        else:
            st.probes["nested_for_two_tensors"] += 1
        if len(ts) == 3:
            st.probes["nested_for_depth3"] += 1
        rows = [self._rows(t) for t in ts]
        want = [(a, b) for a in rows[0] for b in rows[1]] if len(ts) == 2 else [(a, b, c) for a in rows[0] for b in rows[1] for c in rows[2]]
        if len(got) != len(want):
            st.fail("C05.nested_iteration", f"nested for-loops over tensors {ev['ts']} (first dims {[t.data.shape[0] for t in ts]}) ran {len(got)} "
                    f"innermost iterations, expected {len(want)}", tensors=ev["ts"])
        for k, (g, w) in enumerate(zip(got, want)):
            if not all(self._same(x, y) for x, y in zip(g, w)):
                st.fail("C05.nested_iteration", f"nested for-loops over tensors {ev['ts']}: innermost iteration #{k} saw the wrong rows", tensors=ev["ts"])

    def _ev_list(self, st, ev):
        t = st.T.get(ev["t"])
        if t is None or t.data.ndim == 0:
            st.skipped += 1
            return
        if self._live_on(st, ev["t"]):
            st.probes["list_during_live_iteration"] += 1
        got = st.must("C05.iteration", "list(tensor)", list, t)
        want = self._rows(t)
        if len(got) != len(want) or not all(self._same(a, b) for a, b in zip(got, want)):
            st.fail("C05.iteration", f"list(tensor {ev['t']}) returned {len(got)} items, expected the {len(want)} rows in order", tensor=ev["t"])

    def _ev_zip(self, st, ev):
        a = st.T.get(ev["a"])
        b = st.T.get(ev["b"]) if ev["b"] is not None else a
        if a is None or b is None or a.data.ndim == 0 or b.data.ndim == 0:
            st.skipped += 1
            return
        if b is a:
            st.probes["zip_same_tensor"] += 1
            st.nontrivial = True
        got = st.must("C05.iteration", "list(zip(t, u))", lambda: list(zip(a, b)))
        ra, rb = self._rows(a), self._rows(b)
        want = list(zip(ra, rb))
        if len(got) != len(want) or not all(self._same(x[0], y[0]) and self._same(x[1], y[1]) for x, y in zip(got, want)):
            st.fail("C05.iteration", f"zip over tensors ({ev['a']}, {ev['b'] if ev['b'] is not None else ev['a']}) gave {len(got)} pairs "
                    f"{'(not the row pairs (i, i))' if len(got) == len(want) else ''}, expected {len(want)}", tensors=[ev["a"], ev["b"]])

    def _ev_getitem(self, st, ev):
        t = st.T.get(ev["t"])
        if t is None or t.data.ndim == 0 or t.data.shape[0] == 0:
            st.skipped += 1
            return
        if self._live_on(st, ev["t"]):
            st.probes["getitem_during_live_iteration"] += 1
        n = t.data.shape[0]
        kind = ev.get("kind", "slice" if ev.get("slice") else "int")
        i = ev["i"]
        if kind in ("int", "npint", "float", "slice"):
            i = max(-n, min(n - 1, i))
        kept_key = None
        if kind == "mask":
            key = list(ev["mask"]) if ev.get("as") == "list" else np.array(ev["mask"], dtype=bool)
            if t.requires_grad:
                st.probes["mask_key_on_tracked_tensor"] += 1
        elif kind == "int_list":
            key = list(ev["vals"])
        elif kind == "slice_step":
            key = slice(*ev["key"])
        elif kind == "index_array":
            if ev["kid"] not in st.keys:
                if "vals" not in ev:
                    st.skipped += 1
                    return
                st.keys[ev["kid"]] = np.array(ev["vals"], dtype=np.int64 if ev.get("dt", "i8") == "i8" else np.int32)
            else:
                st.probes["index_array_reused"] += 1
            key = st.keys[ev["kid"]]
            kept_key = key.tobytes()
        elif kind == "slice":
            key = slice(min(i % n, ev["j"]), ev["j"])
        elif kind == "bool":
            key = bool(ev.get("b"))            # numpy semantics: a new leading axis of length 1 (True) or 0 (False)
        elif kind == "npint":
            key = np.int64(i)
        elif kind == "float":
            key = float(i)                     # not an index: must be refused
        elif kind == "none":
            key = None
        elif kind == "ellipsis":
            key = (Ellipsis, 0) if t.data.ndim >= 2 else Ellipsis
        else:
            key = i                             # int, possibly out of range
        st.probes["index_kind_" + kind] += 1
        try:
            want = t.data[key]
        except Exception:
            want = None
        if kind in ("mask", "int_list") and isinstance(key, list) and len(key) == 0:
            return                      # (an empty list as key: NumPy's own reading of it is version dependent)
        try:
            with quiet():
                got = t[key]
        except Exception as e:
            if kept_key is not None and st.keys[ev["kid"]].tobytes() != kept_key:
                st.fail("C05.indexing", f"a refused lookup t[index array] changed the caller's index array (now {st.keys[ev['kid']].tolist()})", tensor=ev["t"])
            if want is not None:
                st.fail("C05.indexing", f"t[{key!r}] on tensor {ev['t']} (first dim {n}) raised {type(e).__name__}; NumPy returns an array of shape {np.asarray(want).shape}", tensor=ev["t"])
            return
        if kept_key is not None and st.keys[ev["kid"]].tobytes() != kept_key:
            st.fail("C05.indexing", f"the lookup t[index array] changed the caller's index array (now {st.keys[ev['kid']].tolist()})", tensor=ev["t"])
        if want is None:
            st.fail("C05.indexing", f"t[{key!r}] on tensor {ev['t']} (first dim {n}) was answered with a tensor of shape {tuple(got.data.shape)}; "
                    "the index cannot be honoured and must be rejected", tensor=ev["t"])
        # (values to single precision: a 0-d result is re-wrapped as float32 on this tree - a dtype matter, C10, not decided here)
        if np.asarray(got.data).shape != np.asarray(want).shape or not np.allclose(np.asarray(got.data, dtype=np.float64), np.asarray(want, dtype=np.float64), rtol=1e-6, atol=1e-30):
            st.fail("C05.indexing", f"t[{key!r}] on tensor {ev['t']} returned shape {tuple(np.asarray(got.data).shape)}, NumPy gives {np.asarray(want).shape} "
                    f"(or different values) - indexing results depend on earlier index calls or on live iterations", tensor=ev["t"])

    def _ev_len(self, st, ev):
        t = st.T.get(ev["t"])
        if t is None or t.data.ndim == 0:
            st.skipped += 1
            return
        if self._live_on(st, ev["t"]):
            st.probes["len_during_iteration"] += 1
        if len(t) != t.data.shape[0]:
            st.fail("C05.len", f"len(tensor) = {len(t)}, first dimension is {t.data.shape[0]}")

    def _ev_unpack(self, st, ev):
        t = st.T.get(ev["t"])
        if t is None or t.data.ndim == 0 or t.data.shape[0] != 3:
            st.skipped += 1
            return
        try:
            if ev.get("star"):
                a, *rest = t
                if len(rest) != 2:
                    st.fail("C05.iteration", f"first, *rest = t on a tensor with 3 rows bound {len(rest)} rows to rest")
                b, c = rest
            else:
                a, b, c = t
        except Exception as e:
            st.fail("C05.iteration", f"unpacking a tensor with 3 rows raised {type(e).__name__}: {e}")
        st.probes["unpack"] += 1
        rows = self._rows(t)
        if not all(self._same(x, y) for x, y in zip((a, b, c), rows)):
            st.fail("C05.iteration", "a, b, c = t did not bind the three rows in order", tensor=ev["t"])

    def _ev_rows_backward(self, st, ev):
        SG = st.SG
        t = st.T.get(ev["t"])
        if t is None or t.data.ndim == 0 or not t.requires_grad or t.data.shape[0] == 0 or t.grad_fn is not None:
            st.skipped += 1
            return
        total = None
        k = 0
        with quiet():
            for row in st.must("C05.iteration", "list(tensor)", list, t):
                k += 1
                s = (row * float(k)).sum()
                total = s if total is None else total + s
            if total is None:
                st.fail("C05.iteration", f"a for-loop over tensor {ev['t']} with {t.data.shape[0]} rows yielded nothing", tensor=ev["t"])
            if not total.requires_grad:
                st.fail("C05.iteration", f"rows yielded by iterating tensor {ev['t']} (which requires grad) do not require grad: they are not the tensor's current rows", tensor=ev["t"])
            t.zero_()
            total.backward()
        st.probes["rows_in_backward"] += 1
        want = np.ones(t.data.shape) * np.arange(1, t.data.shape[0] + 1).reshape((-1,) + (1,) * (t.data.ndim - 1))
        got = np.asarray(t.grad.data, dtype=np.float64)
        if k != t.data.shape[0] or got.shape != want.shape or not np.allclose(got, want, rtol=1e-6, atol=1e-6):
            st.fail("C05.iteration", f"rows yielded by iterating tensor {ev['t']} do not cover it: d(sum_k k*row_k)/dt is not k on row k", tensor=ev["t"])
