"""initsim - C15: weight initialisers fill tensors with the documented distribution, in place.

Claimed through the randomness seam: the property is about what the code does with random
draws.  Every configuration runs (i) under the STUB stream - each uniform-family entry
point of np.random returns a + (b-a)*u over a known stratified u (containing 0 and
1-2**-53), each normal-family entry point m + s*z over a known symmetric z with mean 0 and
std 1 - so the filled tensor must equal bound/mean/std formulas applied to that very
stream element by element, whichever NumPy entry point the code uses; and (ii) under the
real generator seeded per run, with >= 20 000 elements and 7-sigma bounds on mean / std /
range, which also covers code that bypasses the stubbed entry points.  In both: the same
Tensor object is returned and filled; shape, dtype and requires_grad are unchanged.
Formulas (fans and gains as in PyTorch) are computed independently here.

Not asserted: identity of the .data array; which NumPy function is called.
"""
import math

import numpy as np

from simkit.core import RunState, Sim
from simkit.rngseam import RngStub
from simkit.world import World, SEAM, SimFault, quiet

FNS = ["uniform_", "normal_", "constant_", "ones_", "zeros_", "xavier_uniform_", "xavier_normal_", "kaiming_uniform_", "kaiming_normal_"]
NONLIN = ["linear", "conv1d", "conv2d", "sigmoid", "tanh", "relu", "leaky_relu", "selu"]


def gain_of(nonlinearity, a):
    if nonlinearity in ("linear", "conv1d", "conv2d", "sigmoid"):
        return 1.0
    if nonlinearity == "tanh":
        return 5.0 / 3
    if nonlinearity == "relu":
        return math.sqrt(2.0)
    if nonlinearity == "leaky_relu":
        slope = 0.01 if a is None else a
        return math.sqrt(2.0 / (1 + slope ** 2))
    if nonlinearity == "selu":
        return 0.75
    raise ValueError(nonlinearity)


def fans(shape):
    rf = int(np.prod(shape[2:])) if len(shape) > 2 else 1
    return shape[1] * rf, shape[0] * rf


def tier_quick(st):
    return st.knobs.get("tier", "quick") == "quick"


class InitSim(Sim):
    PROP = "C15"
    NAME = "initsim"
    QUICK_RUNS = 16000
    THOROUGH_RUNS = 120000
    MAX_EVENTS = 16
    PROBES = ["stub_hit_uniform", "stub_hit_normal", "real_rng_large_sample", "rank1_plain_filler", "rank_lt2_refused", "fan_out_mode",
              "leaky_relu_slope", "layer_linear", "layer_conv1d", "layer_conv2d", "float64", "requires_grad_kept", "rank3", "rank4", "gain_not_one", "non_contiguous_tensor", "initialiser_inside_no_grad",
              "earlier_tensor_updated_in_place", "earlier_tensor_initialised_again", "initialiser_interrupted_then_reissued", "initialiser_call_refused_then_reissued",
              "weight_replaced_then_reset_parameters", "tensor_above_2_20_elements", "calculate_gain_called_directly", "layer_rebuilt_with_other_fan_in_after_drop"]
    RULE = ("one run = 3-10 initialiser / layer-constructor calls with seeded configurations (shape rank 1-4, gain, mode, nonlinearity, slope, "
            "dtype, requires_grad), each under the stub stream or the real seeded generator; distinct = initialiser x rank x mode x nonlinearity "
            "x dtype x stream; non-trivial = a random initialiser ran on a tensor of rank >= 2")
    STUB = Sim.STUB + ["np.random uniform/normal entry points replaced by a known stream in stub runs (real seeded generator in the others)"]

    def knobs(self, rng, tier):
        return {"max_events": rng.randint(3, 16), "np_seed": rng.randrange(2 ** 31), "tier": tier}

    def start(self, knobs):
        st = RunState(knobs)
        st.world = World(knobs.get("np_seed", 1))
        st.SG = st.world.SG
        st.kept = []        # [tensor, bytes, rg] of earlier filled tensors the program keeps using
        st.caught = []      # exceptions the program caught and keeps
        return st

    BAD = {"normal_": [{"mean": 0.0, "std": -1.0}, {"mean": 0.0, "std": "x"}], "uniform_": [{"a": float("nan"), "b": 1.0}],
           "xavier_normal_": [{"gain": -1.0}], "constant_": [{"val": "abc"}],
           "kaiming_uniform_": [{"mode": "fan_xx"}, {"nonlinearity": "foo"}], "kaiming_normal_": [{"nonlinearity": "foo"}, {"a": "x", "nonlinearity": "leaky_relu"}]}

    def gen(self, rng, st):
        if getattr(st, "pending", None):
            return st.pending.pop(0)
        if rng.random() < 0.06:
            # calculate_gain called directly, the way user code does (`gain=calculate_gain('leaky_relu')`), before later initialiser calls
            nl = rng.choice(NONLIN)
            return {"k": "gain_call", "nonlinearity": nl, "param": rng.choice([None, None, 0.2, 1, 0.5]) if nl == "leaky_relu" else None}
        if st.kept and rng.random() < 0.3:
            i = rng.randrange(len(st.kept))
            u = rng.random()
            if u < 0.35:
                # the program updates an earlier tensor in place (what an optimizer step does)
                return {"k": "touch", "idx": i, "how": rng.choice(["add", "scale", "sgd"])}
            fn = rng.choice(FNS)
            t = st.kept[i][0]
            ev = {"k": "reinit", "idx": i, "fn": fn, "args": self._gen_args(rng, fn), "how": rng.choice(["stub", "real"]), "in_no_grad": rng.random() < 0.15}
            if u < 0.6 and fn in self.BAD:
                # a call the library is expected to refuse (or an argument it may accept): whatever it does, the tensor keeps its flags
                ev["args"] = rng.choice(self.BAD[fn])
                ev["bad"] = True
                st.pending = [{"k": "reinit", "idx": i, "fn": fn, "args": self._gen_args(rng, fn), "how": "stub", "in_no_grad": False}]
            elif u < 0.8:
                ev["fault"] = {"kind": rng.choice(["alloc", "interrupt", "exit"]), "seam": "line", "at": rng.randint(1, 30)}
                st.pending = [{"k": "reinit", "idx": i, "fn": fn, "args": ev["args"], "how": "stub", "in_no_grad": False}]
            return ev
        if getattr(st, "pending", None):
            return st.pending.pop(0)
        how = rng.choice(["stub", "stub", "real"])
        if rng.random() < 0.2:
            kind = rng.choice(["Linear", "Conv1d", "Conv2d"])
            big = how == "real"
            if kind == "Linear":
                args = {"in": rng.randint(100, 200) if big else rng.randint(1, 9), "out": rng.randint(120, 200) if big else rng.randint(1, 7), "bias": rng.random() < 0.7}
            elif kind == "Conv1d":
                args = {"cin": rng.randint(20, 40) if big else rng.randint(1, 4), "cout": rng.randint(50, 80) if big else rng.randint(1, 4), "k": rng.randint(3, 7) if big else rng.randint(1, 3), "bias": rng.random() < 0.7}
            else:
                args = {"cin": rng.randint(8, 16) if big else rng.randint(1, 3), "cout": rng.randint(20, 30) if big else rng.randint(1, 4),
                        "k": [rng.randint(3, 5), rng.randint(3, 5)] if big else rng.choice([rng.randint(1, 3), [rng.randint(1, 3), rng.randint(1, 3)]]), "bias": rng.random() < 0.7}
            ev = {"k": "layer", "kind": kind, "args": args, "how": how}
            if kind == "Linear" and not big and rng.random() < 0.4:
                # a layer of the SAME number of weights but another fan-in is built right after this one was dropped (search over widths)
                st.pending = [{"k": "layer", "kind": "Linear", "args": {"in": args["out"], "out": args["in"], "bias": args["bias"]}, "how": "stub", "churn": True}]
            if not big and rng.random() < 0.5:
                # later the program swaps the weight for one with another fan-in (pruning / widening a layer) and resets the layer,
                # or simply resets the untouched layer a second time
                ev["then"] = {"scale_in": rng.choice([1, 2, 3, 7]), "how": rng.choice(["new_parameter", "data_rebound"])}
            return ev
        fn = rng.choice(FNS)
        rank = rng.choice([1, 2, 2, 2, 3, 4])
        if how == "real":
            shape = {1: [20000 + rng.randint(0, 5000)], 2: [rng.randint(100, 200), rng.randint(150, 250)], 3: [rng.randint(20, 40), rng.randint(30, 50), rng.randint(20, 30)],
                     4: [rng.randint(10, 20), rng.randint(10, 20), rng.randint(10, 15), rng.randint(10, 15)]}[rank]
        else:
            shape = [rng.randint(1, 6) for _ in range(rank)]
        if rng.random() < (0.003 if tier_quick(st) else 0.012):
            # rarely a tensor of more than 2^20 (2^22) elements, not a multiple of a power of two: block-wise / chunked fill paths
            shape = rng.choice([[1100, 1000], [1500, 1000], [3, 700, 600], [1048583]] + ([] if tier_quick(st) else [[2100, 2000]]))
            rank = len(shape)
        args = self._gen_args(rng, fn)
        return {"k": "init", "fn": fn, "shape": shape, "f64": rng.random() < 0.4, "rg": rng.random() < 0.5, "args": args, "how": how,
                "layout": rng.choice(["C", "C", "C", "F", "transposed", "strided"]) if rank >= 2 else rng.choice(["C", "C", "strided"]),
                "in_no_grad": rng.random() < 0.15}

    def _gen_args(self, rng, fn):
        args = {}
        if fn == "uniform_":
            lo = rng.choice([0.0, -1.0, -0.5, 2.0])
            args = {"a": lo, "b": lo + rng.choice([1.0, 0.25, 3.0])} if rng.random() < 0.8 else {}
        elif fn == "normal_":
            args = {"mean": rng.choice([0.0, 1.5, -2.0]), "std": rng.choice([1.0, 0.1, 2.5])} if rng.random() < 0.8 else {}
        elif fn == "constant_":
            args = {"val": rng.choice([0.0, 0.3, -7.0, 2])}
        elif fn.startswith("xavier"):
            args = {"gain": rng.choice([1.0, 1.0, 5.0 / 3, math.sqrt(2.0), 0.5])} if rng.random() < 0.7 else {}
        elif fn.startswith("kaiming"):
            if rng.random() < 0.8:
                args = {"mode": rng.choice(["fan_in", "fan_out"]), "nonlinearity": rng.choice(NONLIN)}
                if args["nonlinearity"] == "leaky_relu" or rng.random() < 0.2:
                    args["a"] = rng.choice([0, 0.01, 0.2, 1, 0.5])
        return args

    # ------------------------------------------------------------------ expectations
    def _expect(self, fn, shape, args):
        """-> ("uniform", lo, hi) | ("normal", mean, std) | ("const", v)"""
        if fn == "uniform_":
            return ("uniform", args.get("a", 0.0), args.get("b", 1.0))
        if fn == "normal_":
            return ("normal", args.get("mean", 0.0), args.get("std", 1.0))
        if fn == "constant_":
            return ("const", args["val"])
        if fn == "ones_":
            return ("const", 1.0)
        if fn == "zeros_":
            return ("const", 0.0)
        fi, fo = fans(shape)
        if fn == "xavier_uniform_":
            a = args.get("gain", 1.0) * math.sqrt(6.0 / (fi + fo))
            return ("uniform", -a, a)
        if fn == "xavier_normal_":
            return ("normal", 0.0, args.get("gain", 1.0) * math.sqrt(2.0 / (fi + fo)))
        fan = fi if args.get("mode", "fan_in") == "fan_in" else fo
        g = gain_of(args.get("nonlinearity", "leaky_relu"), args.get("a", 0))
        if fn == "kaiming_uniform_":
            b = g * math.sqrt(3.0 / fan)
            return ("uniform", -b, b)
        return ("normal", 0.0, g / math.sqrt(fan))

    def _judge(self, st, what, data, exp, stub, dtype):
        """compare a filled array with the expectation, under the stub stream or statistically"""
        data64 = np.asarray(data, dtype=np.float64)
        n = data64.size
        kind = exp[0]
        rel = 3e-6 if dtype == np.float32 else 1e-12
        if kind == "const":
            if not np.all(data64 == np.asarray(exp[1], dtype=dtype).astype(np.float64)):
                st.fail("C15.constant_fill", f"{what}: not every element equals {exp[1]}")
            return
        if not np.isfinite(data64).all():
            st.fail("C15.distribution", f"{what}: the filled tensor contains non-finite values")
        if stub is not None:
            fam = "uniform" if any(k in stub.hits for k in ("rand", "random", "random_sample", "ranf", "sample", "uniform")) else None
            fam = "normal" if any(k in stub.hits for k in ("randn", "normal", "standard_normal")) else fam
            if fam is None:
                st.probes["stub_not_hit"] += 1
                return False
            if fam != kind:
                st.fail("C15.distribution", f"{what}: the documentation promises a {kind} distribution, the code drew from the {fam} family")
            st.probes["stub_hit_" + kind] += 1
            probe = RngStub(stub.perm_seed)
            if kind == "uniform":
                lo, hi = exp[1], exp[2]
                want = lo + (hi - lo) * probe._u(n).reshape(data64.shape)
                scale = max(abs(lo), abs(hi), 1e-30)
            else:
                m, s = exp[1], exp[2]
                want = m + s * probe._z(n).reshape(data64.shape)
                scale = abs(m) + 4 * abs(s) + 1e-30
            err = float(np.max(np.abs(data64 - want))) if n else 0.0
            if not err <= rel * scale * 4 + 1e-300:
                if kind == "uniform":
                    got = f"min {data64.min():.6g}, max {data64.max():.6g}"
                    wantd = f"U({exp[1]:.6g}, {exp[2]:.6g})"
                else:
                    got = f"mean {data64.mean():.6g}, std {data64.std():.6g}"
                    wantd = f"N({exp[1]:.6g}, std {exp[2]:.6g})"
                st.fail("C15.distribution", f"{what}: with a known random stream the tensor holds {got}; the documented distribution is {wantd} "
                        f"(max element error {err:.3g})")
            return True
        # real generator: statistical bounds
        st.probes["real_rng_large_sample"] += 1
        if n < 15000:
            return False
        mean, std = float(data64.mean()), float(data64.std())
        if kind == "uniform":
            lo, hi = exp[1], exp[2]
            m, s = (lo + hi) / 2, (hi - lo) / math.sqrt(12)
            slack = rel * max(abs(lo), abs(hi))
            if data64.min() < lo - slack or data64.max() > hi + slack:
                st.fail("C15.distribution", f"{what}: values [{data64.min():.6g}, {data64.max():.6g}] fall outside the documented bounds [{lo:.6g}, {hi:.6g})")
            if (data64.max() - data64.min()) < 0.98 * (hi - lo):
                st.fail("C15.distribution", f"{what}: {n} samples span only [{data64.min():.6g}, {data64.max():.6g}], documented range is [{lo:.6g}, {hi:.6g})")
        else:
            m, s = exp[1], exp[2]
        if abs(mean - m) > 7 * s / math.sqrt(n) + rel * abs(m):
            st.fail("C15.distribution", f"{what}: sample mean {mean:.6g} over {n} draws, documented mean {m:.6g} (7-sigma bound {7 * s / math.sqrt(n):.3g})")
        if abs(std - s) > 7 * s / math.sqrt(2 * n) + rel * s:
            st.fail("C15.distribution", f"{what}: sample std {std:.6g} over {n} draws, documented std {s:.6g} (7-sigma bound {7 * s / math.sqrt(2 * n):.3g})")
        return True

    # ------------------------------------------------------------------ events
    def apply(self, st, ev):
        getattr(self, "_ev_" + ev["k"])(st, ev)
        # earlier tensors are independent of everything that happened to OTHER tensors since
        for n, (t, snap, rg) in enumerate(st.kept):
            if snap is not None and t.data.tobytes() != snap:
                st.fail("C15.independent_storage", f"tensor #{n}, filled by an earlier initialiser call, changed although only another tensor was "
                        f"initialised or updated since (event {ev['k']} {ev.get('fn', ev.get('kind', ''))})")
            if bool(t.requires_grad) != rg:
                st.fail("C15.in_place", f"tensor #{n} lost/gained requires_grad ({t.requires_grad}, was {rg}) (event {ev['k']} {ev.get('fn', '')})")

    def _ev_gain_call(self, st, ev):
        init = st.SG.init
        nl, prm = ev["nonlinearity"], ev.get("param")
        try:
            got = init.calculate_gain(nl) if prm is None else init.calculate_gain(nl, prm)
        except Exception as e:
            st.fail("C15.gain", f"calculate_gain({nl!r}, {prm!r}) raised {type(e).__name__}: {e}")
        want = gain_of(nl, prm)
        st.probes["calculate_gain_called_directly"] += 1
        if not abs(float(got) - want) <= 1e-12 * max(1.0, abs(want)):
            st.fail("C15.gain", f"calculate_gain({nl!r}, {prm!r}) = {got!r}, the documented value is {want!r} (earlier calls must not change it)")

    def _ev_touch(self, st, ev):
        if ev["idx"] >= len(st.kept):
            st.skipped += 1
            return
        rec = st.kept[ev["idx"]]
        t = rec[0]
        if ev["how"] == "add":
            t.data += t.data.dtype.type(0.5)
        elif ev["how"] == "scale":
            t.data *= t.data.dtype.type(0.5)
        else:
            SG = st.SG
            if not t.requires_grad:
                t.data -= t.data.dtype.type(0.25)
            else:
                t.grad = SG.Tensor(np.full(t.data.shape, 0.25, dtype=t.data.dtype))
                opt = SG.optim.SGD([t], lr=1.0)
                st.must("C15.harness_step", "SGD.step", opt.step)
                opt.zero_grad()
        rec[1] = t.data.tobytes()
        st.probes["earlier_tensor_updated_in_place"] += 1

    def _ev_reinit(self, st, ev):
        if ev["idx"] >= len(st.kept):
            st.skipped += 1
            return
        rec = st.kept[ev["idx"]]
        t = rec[0]
        ev2 = dict(ev, shape=list(t.data.shape), f64=t.data.dtype == np.float64, rg=rec[2], layout="C")
        rec[1] = None            # being re-filled
        self._run_init(st, ev2, t, tuple(t.data.shape), t.data.dtype.type, rec)
        rec[1] = t.data.tobytes()
        st.probes["earlier_tensor_initialised_again"] += 1

    def _ev_init(self, st, ev):
        SG = st.SG
        fn, shape, args = ev["fn"], tuple(ev["shape"]), ev["args"]
        dtype = np.float64 if ev["f64"] else np.float32
        layout = ev.get("layout", "C")
        base = np.full(shape, 123.0, dtype=dtype)
        if layout == "F":
            base = np.asfortranarray(base)
        elif layout == "strided":
            big = np.full(shape[:-1] + (shape[-1] * 2,), 123.0, dtype=dtype)
            base = big[..., ::2]
        if layout == "transposed" and len(shape) >= 2:
            # the tensor to fill is the result of a transpose (a non-contiguous view), as in synapgrad.empty(b, a).transpose(0, 1)
            src = SG.Tensor(np.full((shape[1], shape[0]) + shape[2:], 123.0, dtype=dtype), requires_grad=False)
            t = src.transpose(0, 1)
            if ev["rg"]:
                t.requires_grad = True
        else:
            t = SG.Tensor(base, requires_grad=ev["rg"])
        if layout != "C":
            st.probes["non_contiguous_tensor"] += 1
        if t.data.size > 2 ** 20:
            st.probes["tensor_above_2_20_elements"] += 1
        self._run_init(st, ev, t, shape, dtype, None)
        if t.data.size <= 4096 and len(st.kept) < 6:
            st.kept.append([t, t.data.tobytes(), bool(ev["rg"])])

    def _run_init(self, st, ev, t, shape, dtype, rec):
        SG = st.SG
        fn, args = ev["fn"], ev["args"]
        f = getattr(SG.init, fn)
        call_args = [t]
        kw = {}
        if fn == "uniform_" and args:
            call_args += [args["a"], args["b"]]
        elif fn == "normal_" and args:
            kw = {"mean": args["mean"], "std": args["std"]}
        elif fn == "uniform_" and ev.get("bad"):
            call_args += [args["a"], args["b"]]
        elif fn == "constant_":
            call_args.append(args["val"])
        elif fn.startswith("xavier") and args:
            kw = {"gain": args["gain"]}
        elif fn.startswith("kaiming") and args:
            kw = {k: v for k, v in args.items()}
        stub = RngStub(perm_seed=len(st.events)) if ev["how"] == "stub" else None
        needs2 = fn.startswith("xavier") or fn.startswith("kaiming")
        st.sig.append(f"{fn}:r{len(shape)}:{args.get('mode', '')}:{args.get('nonlinearity', '')}:{'f8' if ev['f64'] else 'f4'}:{ev['how']}")
        import contextlib
        ctx = SG.sg.no_grad() if ev.get("in_no_grad") else contextlib.nullcontext()      # e.g. `with no_grad(): model.apply(init_fn)`
        if ev.get("in_no_grad"):
            st.probes["initialiser_inside_no_grad"] += 1
        flags = (id(t), tuple(t.data.shape), t.data.dtype, bool(t.requires_grad))
        try:
            with quiet(), ctx:
                with SEAM.armed(ev.get("fault")):
                    if stub is not None:
                        with stub.installed():
                            out = f(*call_args, **kw)
                    else:
                        out = f(*call_args, **kw)
        except SimFault as e:
            # interrupted at an arbitrary line: the values are unknown, but the tensor is still the caller's tensor
            st.caught.append(e)
            st.faults["init_line_" + ev["fault"]["kind"]] += 1
            st.probes["initialiser_interrupted_then_reissued"] += 1
            if (id(t), tuple(t.data.shape), t.data.dtype, bool(t.requires_grad)) != flags:
                st.fail("C15.in_place", f"{fn} interrupted by an injected fault left the tensor with shape {t.data.shape}, dtype {t.data.dtype}, "
                        f"requires_grad={t.requires_grad} (was {flags[1]}, {flags[2]}, {flags[3]})")
            return
        except Exception as e:
            if needs2 and len(shape) < 2:
                st.probes["rank_lt2_refused"] += 1
                return
            if ev.get("bad"):
                st.caught.append(e)
                st.probes["initialiser_call_refused_then_reissued"] += 1
                if (id(t), tuple(t.data.shape), t.data.dtype, bool(t.requires_grad)) != flags:
                    st.fail("C15.in_place", f"{fn}({args}) was refused ({type(e).__name__}) but left the tensor with shape {t.data.shape}, dtype {t.data.dtype}, "
                            f"requires_grad={t.requires_grad} (was {flags[1]}, {flags[2]}, {flags[3]})")
                return
            st.fail("C15.initialiser_raises", f"{fn}(shape={shape}, {args}) raised {type(e).__name__}: {e}")
        if needs2 and len(shape) < 2:
            st.fail("C15.rank_check", f"{fn} accepted a tensor of rank {len(shape)} (fan_in/fan_out are undefined)")
        if ev.get("bad"):
            # accepted: what such arguments mean is not documented; only identity and flags are
            st.notes["odd_arguments_accepted"] += 1
            if out is not t or (id(t), tuple(t.data.shape), t.data.dtype, bool(t.requires_grad)) != flags:
                st.fail("C15.in_place", f"{fn}({args}) changed identity/shape/dtype/requires_grad of the tensor")
            return
        what = f"{fn}(shape={list(shape)}, {args}, {'float64' if ev['f64'] else 'float32'})"
        if out is not t:
            st.fail("C15.in_place", f"{what}: did not return the tensor it was given")
        if tuple(t.data.shape) != shape or t.data.dtype != dtype or bool(t.requires_grad) != bool(ev["rg"]):
            st.fail("C15.in_place", f"{what}: the tensor now has shape {t.data.shape}, dtype {t.data.dtype}, requires_grad={t.requires_grad} "
                    f"(was {shape}, {np.dtype(dtype)}, {ev['rg']})")
        if len(shape) >= 2 and fn not in ("constant_", "ones_", "zeros_"):
            st.nontrivial = True
        if len(shape) == 1: st.probes["rank1_plain_filler"] += 1
        if len(shape) == 3: st.probes["rank3"] += 1
        if len(shape) == 4: st.probes["rank4"] += 1
        if ev["f64"]: st.probes["float64"] += 1
        if ev["rg"]: st.probes["requires_grad_kept"] += 1
        if args.get("mode") == "fan_out": st.probes["fan_out_mode"] += 1
        if args.get("nonlinearity") == "leaky_relu" and args.get("a"): st.probes["leaky_relu_slope"] += 1
        if args.get("gain", 1.0) != 1.0 or args.get("nonlinearity") in ("tanh", "relu", "selu", "leaky_relu"): st.probes["gain_not_one"] += 1
        self._judge(st, what, t.data, self._expect(fn, shape, args), stub, dtype)

    def _ev_layer(self, st, ev):
        SG = st.SG
        nn = SG.nn
        a = ev["args"]
        kind = ev["kind"]
        stub = RngStub(perm_seed=len(st.events)) if ev["how"] == "stub" else None
        if ev.get("churn"):
            import gc
            gc.collect()
            st.probes["layer_rebuilt_with_other_fan_in_after_drop"] += 1
        st.sig.append(f"{kind}:{ev['how']}:{a['bias']}")
        st.nontrivial = True

        class Seq:          # the stub serves weight then bias: two draws with the same perm_seed but different sizes
            pass
        try:
            with quiet():
                if stub is not None:
                    with stub.installed():
                        layer = self._make(nn, kind, a)
                else:
                    layer = self._make(nn, kind, a)
        except Exception as e:
            st.fail("C15.layer_constructor_raises", f"{kind}({a}) raised {type(e).__name__}: {e}")
        st.probes["layer_" + kind.lower()] += 1
        if kind == "Linear":
            fan_in = a["in"]
            wshape = (a["out"], a["in"])
        elif kind == "Conv1d":
            fan_in = a["cin"] * a["k"]
            wshape = (a["cout"], a["cin"], a["k"])
        else:
            k = a["k"] if isinstance(a["k"], list) else [a["k"], a["k"]]
            fan_in = a["cin"] * k[0] * k[1]
            wshape = (a["cout"], a["cin"], k[0], k[1])
        b = 1.0 / math.sqrt(fan_in)
        w = layer.weight
        if tuple(w.data.shape) != wshape:
            st.fail("C15.layer_init", f"{kind}({a}): weight has shape {w.data.shape}, expected {wshape}")
        what = f"{kind}({a}).weight"
        self._judge(st, what, w.data, ("uniform", -b, b), stub, w.data.dtype.type)
        if a["bias"]:
            if layer.bias is None:
                st.fail("C15.layer_init", f"{kind}({a}): bias requested but missing")
            if stub is not None or layer.bias.data.size >= 15000:
                self._judge(st, f"{kind}({a}).bias", layer.bias.data, ("uniform", -b, b), stub, layer.bias.data.dtype.type)
            else:
                bd = np.asarray(layer.bias.data, dtype=np.float64)
                if bd.size and (bd.min() < -b * (1 + 1e-5) or bd.max() > b * (1 + 1e-5)):
                    st.fail("C15.distribution", f"{kind}({a}).bias: values outside U(-1/sqrt(fan_in), 1/sqrt(fan_in)) = +-{b:.6g}")
        elif layer.bias is not None:
            st.fail("C15.layer_init", f"{kind}({a}): bias=False but a bias exists")
        then = ev.get("then")
        if then:
            k_ = then["scale_in"]
            new_shape = (wshape[0], wshape[1] * k_) + tuple(wshape[2:])
            arr = np.full(new_shape, 123.0, dtype=w.data.dtype)
            if then["how"] == "new_parameter":
                layer.weight = nn.Parameter(SG.Tensor(arr, requires_grad=True))
            else:
                layer.weight.data = arr
            stub2 = RngStub(perm_seed=len(st.events) + 17)
            try:
                with quiet(), stub2.installed():
                    layer.reset_parameters()
            except Exception as e:
                st.fail("C15.layer_init", f"{kind}.reset_parameters() after the weight was replaced raised {type(e).__name__}: {e}")
            b2 = 1.0 / math.sqrt(fan_in * k_)
            st.probes["weight_replaced_then_reset_parameters"] += 1
            if tuple(layer.weight.data.shape) != new_shape:
                st.fail("C15.in_place", f"{kind}.reset_parameters() changed the shape of the weight it was asked to re-fill")
            self._judge(st, f"{kind}({a}) with weight replaced by shape {list(new_shape)}, reset_parameters(): weight", layer.weight.data, ("uniform", -b2, b2), stub2, layer.weight.data.dtype.type)
            if a["bias"]:
                self._judge(st, f"{kind}({a}) with weight replaced by shape {list(new_shape)}, reset_parameters(): bias", layer.bias.data, ("uniform", -b2, b2), stub2, layer.bias.data.dtype.type)

    def _make(self, nn, kind, a):
        if kind == "Linear":
            return nn.Linear(a["in"], a["out"], bias=a["bias"])
        if kind == "Conv1d":
            return nn.Conv1d(a["cin"], a["cout"], a["k"], bias=a["bias"])
        k = tuple(a["k"]) if isinstance(a["k"], list) else a["k"]
        return nn.Conv2d(a["cin"], a["cout"], k, bias=a["bias"])
