"""framesim - C11: forward and backward never modify operands, targets or the caller's gradient.

The statement is a frame condition: for every event, everything outside the event's
documented write-set is unchanged.  With NumPy views and stored references in play the
interesting violations need a history (backward with a caller-supplied g, reuse of that
root in a second graph, backward again), so the world is a history world: leaves in varied
memory layouts (C / F / strided view of a larger buffer / negative stride / offset view;
some leaves are VIEWS of other leaves), targets as tensors, ops over the whole catalogue,
backward from any node with caller-supplied gradients, resets, optimizer steps,
initialisers, batch-norm training forwards with running statistics, clone/detach.

Oracle: byte snapshots of every registered array (operand data, targets, caller g - both
the Tensor and the raw array handed in -, gradient buffers, base buffers of views, BN
buffers).  Every event declares its write-set; after the event everything else must be
byte-identical (arrays that may share memory with a write-set array are excused).
Repeatability: an op re-issued on unchanged operands returns bit-identical bytes.
clone()/detach() results share no memory with their source.  An op that raises (F1/F2)
must have changed nothing.

Not asserted: that results are copies (views of operands are fine); contents of arrays an
event may write.
"""
import gc

import numpy as np

from simkit import ops
from simkit.core import RunState, Sim, enc, dec, small_values, lay_out
from simkit.graph import Graph
from simkit.world import World, SEAM, SimFault, quiet

FRAME_OPS = [n for n in ops.ALL_OPS if n not in ("batch_norm",)]
INITS = ["uniform_", "normal_", "constant_", "ones_", "zeros_", "xavier_uniform_", "xavier_normal_", "kaiming_uniform_", "kaiming_normal_"]


class FrameSim(Sim):
    PROP = "C11"
    NAME = "framesim"
    QUICK_RUNS = 16000
    THOROUGH_RUNS = 400000
    MAX_EVENTS = 40
    PROBES = ["operand_is_view_of_other_operand", "operand_reused_by_2_ops", "caller_g_reachable_from_second_sweep", "conv_with_bias",
              "batch_norm_training_running_stats", "batch_norm_eval", "class_loss_with_target_tensor", "unfold_dim_result_consumed",
              "layout_F", "layout_strided", "layout_neg", "layout_offset", "repeat_op_bit_identical", "clone_detach_independent",
              "optimizer_step", "initialiser", "op_raised_nothing_changed", "forward_fault", "sweep_fault", "backward_with_caller_g", "caller_g_of_other_dtype", "earlier_op_issued_again_later",
              "second_backward_same_graph", "zero_reset", "no_grad_span", "frozen_leaf_with_old_gradient"]
    RULE = ("one run = a seeded history of leaf/op/backward/zero/step/init/BN events over tensors in mixed memory layouts with views; distinct = "
            "hash of the sequence of (event kind, op, operand aliasing pattern, layouts); non-trivial = at least one backward with a "
            "caller-supplied gradient or a second sweep")
    ASSUMPTIONS = ["arrays that may share memory with an array of the event's write-set are excused (np.may_share_memory, conservative)"]

    def knobs(self, rng, tier):
        return {"max_events": rng.randint(8, 40), "n_leaves": rng.randint(2, 5), "views": rng.random() < 0.5,
                "ops": sorted(rng.sample(FRAME_OPS, rng.randint(6, len(FRAME_OPS)))), "faulty": rng.random() < 0.3,
                "base": [rng.randint(1, 3), rng.randint(2, 4)], "p_backward": rng.choice([0.15, 0.3])}

    # ------------------------------------------------------------------ state
    def start(self, knobs):
        st = RunState(knobs)
        st.world = World()
        st.SG = st.world.SG
        st.G = Graph(st.SG)
        st.next_id = 0
        st.cells = {}       # key -> getter
        st.snap = {}        # key -> (shape, dtype, bytes) | None
        st.keep = []        # raw arrays handed to the library (kept alive so ids stay valid)
        st.opt = None
        st.opt_ids = []
        st.n_g = 0
        st.consumed = {}
        st.swept = set()    # nodes that were roots with a caller-supplied g
        st.bn = {}          # id -> True for BN running buffers
        st.pending = []
        st.pre_write_arrays = []
        st.nograd_ctx = None
        # what a re-used operand list holds after a concat/stack call: requires-grad float leaves of the frame
        ops.LIST_DECOYS = lambda G=st.G: [G.T[i] for i in sorted(G.T) if G.meta[i]["kind"] == "leaf" and G.T[i].requires_grad][:3]
        return st

    # ------------------------------------------------------------------ frame oracle
    def _reg(self, st, key, getter):
        st.cells[key] = getter
        st.snap[key] = self._take(getter())

    @staticmethod
    def _take(a):
        if a is None:
            return None
        a = np.asarray(a)
        return (a.shape, str(a.dtype), a.tobytes())

    def _reg_tensor(self, st, i):
        t = st.G.T[i]
        self._reg(st, ("data", i), lambda t=t: t.data)
        self._reg(st, ("grad", i), lambda t=t: t._grad)

    def _frame(self, st, what, write=()):
        """everything outside the write-set must be byte-identical; `write` = keys the event may write"""
        write = set(write)
        warrs = [st.cells[k]() for k in write if k in st.cells]
        warrs = [a for a in warrs if a is not None] + st.pre_write_arrays
        for key, getter in st.cells.items():
            cur = getter()
            before = st.snap[key]
            now = self._take(cur)
            if key in write:
                st.snap[key] = now
                continue
            if now == before:
                continue
            # (the caller's gradient is never excused: it must not change even if the library made it share memory with a buffer)
            if key[0] != "g" and cur is not None and any(np.may_share_memory(cur, w) for w in warrs):
                st.snap[key] = now
                continue
            if key[0] == "grad" and before is None and now is not None and not any(now[2]):
                st.snap[key] = now     # absent before, all-zero after: zero-initialised buffer, same observable sum
                continue
            kind = {"data": "data of tensor", "grad": "gradient of tensor", "g": "caller-supplied gradient", "raw": "array handed to the library for tensor",
                    "base": "base buffer of the view behind tensor"}[key[0]]
            st.fail("C11.frame", f"{what}: {kind} {key[1]} changed, which is outside the event's write-set", key=list(key))
        st.pre_write_arrays = []

    def _pre(self, st, write):
        """arrays of the write-set BEFORE the event (rebinding must not hide sharing)"""
        st.pre_write_arrays = [a for a in (st.cells[k]() for k in write if k in st.cells) if a is not None]

    # ------------------------------------------------------------------ generation
    def gen(self, rng, st):
        kn = st.knobs
        G = st.G
        if st.pending:
            return st.pending.pop(0)
        leaves = G.leaves()
        if len([i for i in leaves if G.T[i].data.dtype.kind == "f"]) < kn["n_leaves"]:
            return self._gen_leaf(rng, st)
        nodes = [i for i in G.T if G.meta[i]["kind"] == "node"]
        rg_all = [i for i in G.T if G.T[i].requires_grad]
        r = rng.random()
        if r < kn["p_backward"] and rg_all and nodes:
            cands = [i for i in rg_all if G.meta[i]["kind"] == "node"] or rg_all
            if rng.random() < 0.15:
                cands = [i for i in rg_all if G.meta[i]["kind"] == "leaf"] or cands     # a leaf as root: its buffer must not become the caller's array
            if rng.random() < 0.3 and st.swept:
                # a node built ON TOP of an earlier root (the caller's g of that root must stay untouched)
                tops = [i for i in cands if any(j in st.swept for j in G.reach(i) if j != i)]
                cands = tops or cands
            root = rng.choice(cands)
            t = G.T[root]
            g = None if (t.data.size == 1 and rng.random() < 0.3) else enc(small_values(rng, t.data.shape, np.float64, -2, 2))
            ev = {"k": "backward", "root": root, "g": g, "layout": rng.choice(["C", "C", "F", "strided", "offset"]), "g_other_dtype": rng.random() < 0.25}
            if kn["faulty"] and rng.random() < 0.2:
                ev["fault"] = {"kind": rng.choice(["alloc", "interrupt", "exit"]), "at": rng.randint(1, 8)}
                if rng.random() < 0.5:
                    # crash point at an arbitrary executed line of the sweep
                    ev["fault"].update(seam="line", at=rng.randint(1, 60 + 110 * len(G.reach(root))))
            return ev
        r = rng.random()
        if r < 0.06:
            fl = [i for i in leaves if G.T[i].data.dtype.kind == "f"]
            return {"k": "zero", "ids": sorted(rng.sample(fl, rng.randint(1, len(fl))))}
        if getattr(st, "first_results", None) and rng.random() < 0.05:
            # an EARLIER operation issued again now - other work (other dtypes, untracked calls, sweeps, steps) has happened in between
            return {"k": "again", "of": rng.choice(sorted(st.first_results))}
        if r < 0.12:
            if st.opt is None:
                fl = [i for i in leaves if G.T[i].data.dtype.kind == "f" and not st.bn.get(i)]
                return {"k": "opt_new", "params": sorted(rng.sample(fl, rng.randint(1, len(fl)))), "kind": rng.choice(["SGD", "Adam", "AdamW"]),
                        "wd": rng.choice([0, 0.1]), "mom": rng.choice([0, 0.9])}
            return {"k": "step"}
        if r < 0.17:
            fl = [i for i in leaves if G.T[i].data.dtype.kind == "f"]
            return {"k": "init", "fn": rng.choice(INITS), "t": rng.choice(fl)}
        if r < 0.24 and G.T:
            return {"k": rng.choice(["clone", "detach"]), "t": rng.choice(sorted(G.T)), "id": st.next_id}
        if r < 0.32:
            ev = self._gen_bn(rng, st)
            if ev is not None:
                return ev
        if r < 0.40:
            ev = self._gen_class_loss(rng, st)
            if ev is not None:
                return ev
        if r < 0.42:
            return {"k": "gc"}
        if r < 0.45:
            return {"k": "nograd_ctx", "on": st.nograd_ctx is None}
        if r < 0.49:
            fl = [i for i in leaves if G.T[i].data.dtype.kind == "f" and not st.bn.get(i)]
            if fl:
                i = rng.choice(fl)
                return {"k": "set_rg", "t": i, "v": not G.T[i].requires_grad}
        if len(nodes) < 16:
            ev = self._gen_op(rng, st)
            if ev is not None:
                return ev
        return self._gen_leaf(rng, st)

    def _gen_leaf(self, rng, st):
        kn = st.knobs
        G = st.G
        b = kn["base"]
        fl = [i for i in G.leaves() if G.T[i].data.dtype.kind == "f" and G.T[i].data.ndim >= 1 and G.T[i].data.size > 1]
        if kn["views"] and fl and rng.random() < 0.35:
            src = rng.choice(fl)
            how = rng.choice(["T", "rev", "half", "same"])
            return {"k": "leaf_view", "id": st.next_id, "of": src, "how": how, "rg": rng.random() < 0.7}
        shapes = [tuple(b), (b[1],), (1, b[1]), (b[0], 1), (b[1], b[0]), (), (b[1], b[1]), (2, b[0], b[1]), (1, 2, 4), (1, 2, 3, 4), (2, 2, 3), (2, b[1], 2)]
        w = [6, 3, 2, 2, 3, 1, 2, 2, 2, 2, 2, 2]
        shape = rng.choices(shapes, w)[0]
        if rng.random() < 0.004:
            shape = (rng.choice([257, 300]), 256)          # rarely a LARGE tensor (size-dependent fast paths)
        dt = np.float32 if rng.random() < 0.2 else np.float64
        if len(shape) == 2 and shape[1] == 256:
            rs = np.random.RandomState(rng.randrange(2 ** 31))
            vals = (rs.randint(-128, 128, size=shape) / 64.0).astype(dt)
        else:
            vals = small_values(rng, shape, dt, -2, 2, avoid_zero=rng.random() < 0.5)
        if rng.random() < 0.15:
            vals = np.abs(vals) / 4 + 0.1        # probabilities for bce
        layout = rng.choice(["C", "C", "F", "strided", "neg", "offset"]) if len(shape) >= 1 else "C"
        return {"k": "leaf", "id": st.next_id, "data": enc(vals), "rg": rng.random() < 0.75, "layout": layout}

    def _gen_op(self, rng, st):
        G = st.G
        pool = [ops.Ref(i, t) for i, t in G.T.items()]
        pool = [r for r in pool if r.finite and r.mag <= 64 and r.kind == "f"]
        if len(pool) > 6 and rng.random() < 0.6:
            pool = sorted(pool, key=lambda r: r.id)[-4:] + [r for r in pool if G.meta[r.id]["kind"] == "leaf"]
        got = ops.gen_op(rng, pool, st.knobs["ops"], {})
        if got is None:
            return None
        name, ins, args = got
        nout = args.get("n", 1) if name == "unbind" else 1
        ev = {"k": "op", "op": name, "in": ins, "args": args, "out": list(range(st.next_id, st.next_id + nout)), "repeat": rng.choice([0, 0, 0, 1, 1, 3])}
        if st.knobs["faulty"] and rng.random() < 0.08:
            ev["fault"] = {"kind": rng.choice(["alloc", "interrupt", "exit"]), "at": rng.randint(1, 3)}
            if rng.random() < 0.5:
                # crash point at an arbitrary executed line of the forward function (e.g. between a temporary overwrite and its restore)
                ev["fault"].update(seam="line", at=rng.randint(1, 90))
        return ev

    def _gen_bn(self, rng, st):
        G = st.G
        xs = [i for i, t in G.T.items() if t.data.dtype.kind == "f" and t.data.ndim in (2, 3, 4) and t.data.size and
              t.data.size // t.data.shape[1] >= 2 and np.isfinite(t.data).all() and np.abs(t.data).max() < 64]
        if not xs:
            return None
        x = rng.choice(xs)
        c = G.T[x].data.shape[1]
        nid = st.next_id
        dt = G.T[x].data.dtype
        rm = {"k": "leaf", "id": nid, "data": enc(small_values(rng, (c,), dt, -1, 1)), "rg": False, "layout": "C", "bn": True}
        rv = {"k": "leaf", "id": nid + 1, "data": enc(np.abs(small_values(rng, (c,), dt, -2, 2)) + 0.5), "rg": False, "layout": "C", "bn": True}
        evs = [rm, rv]
        ins = [x, nid, nid + 1]
        n = nid + 2
        if rng.random() < 0.6:
            evs.append({"k": "leaf", "id": n, "data": enc(small_values(rng, (c,), dt, -2, 2, avoid_zero=True)), "rg": True, "layout": "C"})
            evs.append({"k": "leaf", "id": n + 1, "data": enc(small_values(rng, (c,), dt, -2, 2)), "rg": True, "layout": "C"})
            ins += [n, n + 1]
            n += 2
        training = rng.random() < 0.65
        evs.append({"k": "op", "op": "batch_norm_run", "in": ins, "args": {"training": training, "momentum": rng.choice([0.1, 0.5, 1.0])},
                    "out": [n], "repeat": False, "writes": [nid, nid + 1] if training else []})
        st.pending = evs[1:]
        return evs[0]

    def _gen_class_loss(self, rng, st):
        G = st.G
        xs = [i for i, t in G.T.items() if t.data.dtype.kind == "f" and t.data.ndim == 2 and t.data.size and np.isfinite(t.data).all() and np.abs(t.data).max() < 32]
        if not xs:
            return None
        x = rng.choice(xs)
        n, c = G.T[x].data.shape
        nid = st.next_id
        labels = [rng.randrange(c) for _ in range(n)]
        if rng.random() < 0.3 and n:
            # unusual labels: padding markers, negative (NumPy-valid) indices, out-of-range classes - a rejected call must leave the targets alone
            for _ in range(rng.randint(1, min(3, n))):
                labels[rng.randrange(n)] = rng.choice([-100, -100, -1, c, c + 3, -c])
        lab = {"k": "leaf", "id": nid, "data": enc(np.array(labels, dtype=np.int64)), "rg": False, "layout": "C"}
        op = {"k": "op", "op": rng.choice(["nll_loss_t", "cross_entropy_t"]), "in": [x, nid], "args": {}, "out": [nid + 1], "repeat": rng.random() < 0.5}
        if st.knobs["faulty"] and rng.random() < 0.3:
            op["fault"] = {"kind": rng.choice(["alloc", "interrupt", "exit"]), "seam": "line", "at": rng.randint(1, 60)}
        st.pending = [op]
        if rng.random() < 0.3:
            # the same targets used by a second loss call afterwards (targets are shared between calls)
            st.pending.append({"k": "op", "op": rng.choice(["nll_loss_t", "cross_entropy_t"]), "in": [x, nid], "args": {}, "out": [nid + 2], "repeat": 0})
        return lab

    # ------------------------------------------------------------------ events
    def apply(self, st, ev):
        st.sig.append(ev["k"] + ":" + str(ev.get("op", ev.get("fn", ""))))
        getattr(self, "_ev_" + ev["k"])(st, ev)

    def _add_leaf(self, st, i, arr, rg, layout):
        SG = st.SG
        st.keep.append(arr)
        t = SG.Tensor(arr, requires_grad=rg and arr.dtype.kind == "f")
        st.G.add_leaf(i, t)
        st.next_id = max(st.next_id, i + 1)
        self._reg_tensor(st, i)
        self._reg(st, ("raw", i), lambda a=arr: a)
        if arr.base is not None:
            base = arr.base
            while getattr(base, "base", None) is not None:
                base = base.base
            if isinstance(base, np.ndarray):
                self._reg(st, ("base", i), lambda a=base: a)
        if layout != "C":
            st.probes["layout_" + layout] += 1

    def _ev_leaf(self, st, ev):
        arr = dec(ev["data"], ev.get("layout", "C"))
        self._add_leaf(st, ev["id"], arr, ev["rg"], ev.get("layout", "C"))
        if ev.get("bn"):
            st.bn[ev["id"]] = True

    def _ev_leaf_view(self, st, ev):
        G = st.G
        if ev["of"] not in G.T:
            st.skipped += 1
            return
        src = G.T[ev["of"]].data
        how = ev["how"]
        if src.ndim == 0:
            st.skipped += 1
            return
        if how == "T":
            arr = src.T
        elif how == "rev":
            arr = src[::-1]
        elif how == "half":
            arr = src[..., : max(1, src.shape[-1] // 2)]
        else:
            arr = src[...]
        self._add_leaf(st, ev["id"], arr, ev["rg"], "view")
        st.G.meta[ev["id"]]["view_of"] = ev["of"]

    def _ev_gc(self, st, ev):
        gc.collect()

    def _ev_nograd_ctx(self, st, ev):
        self._pre(st, [])
        if ev["on"] and st.nograd_ctx is None:
            st.nograd_ctx = st.SG.sg.no_grad()
            st.nograd_ctx.__enter__()
            st.probes["no_grad_span"] += 1
        elif not ev["on"] and st.nograd_ctx is not None:
            st.nograd_ctx.__exit__(None, None, None)
            st.nograd_ctx = None
        self._frame(st, "entering/leaving no_grad")

    def _ev_set_rg(self, st, ev):
        """freeze / unfreeze a leaf: a frozen operand that still owns an old gradient is outside every later differentiated graph"""
        G = st.G
        i = ev["t"]
        if i not in G.T or G.meta[i]["kind"] != "leaf":
            st.skipped += 1
            return
        self._pre(st, [])
        try:
            G.T[i].requires_grad = ev["v"]
        except Exception:
            st.notes["set_rg_rejected"] += 1
        if not ev["v"] and G.T[i]._grad is not None:
            st.probes["frozen_leaf_with_old_gradient"] += 1
        self._frame(st, "requires_grad toggled")

    def finish(self, st):
        if st.nograd_ctx is not None:
            st.nograd_ctx.__exit__(None, None, None)
            st.nograd_ctx = None

    def _ev_op(self, st, ev):
        G, SG = st.G, st.SG
        if not G.has_inputs(ev):
            st.skipped += 1
            return
        ins = ev["in"]
        datas = [G.T[i].data for i in ins]
        for a in range(len(ins)):
            for b in range(a + 1, len(ins)):
                if ins[a] != ins[b] and np.shares_memory(datas[a], datas[b]):
                    st.probes["operand_is_view_of_other_operand"] += 1
        for i in ins:
            st.consumed[i] = st.consumed.get(i, 0) + 1
            if st.consumed[i] == 2:
                st.probes["operand_reused_by_2_ops"] += 1
            if G.meta[i]["kind"] == "node" and G.meta[i]["ev"]["op"] == "unfold_dim":
                st.probes["unfold_dim_result_consumed"] += 1
        write = [("data", i) for i in ev.get("writes", [])]
        self._pre(st, write)
        fault = ev.get("fault")
        if fault:
            SEAM.arm_spec(fault)
        try:
            with quiet():
                res = G.apply(ev)
        except SimFault:
            SEAM.disarm()
            st.faults[f"forward_{fault.get('seam', 'kernel')}_{fault['kind']}"] += 1
            st.probes["forward_fault"] += 1
            self._frame(st, f"{ev['op']} aborted by an injected fault", write)
            return
        except Exception as e:
            SEAM.disarm()
            st.probes["op_raised_nothing_changed"] += 1
            self._frame(st, f"{ev['op']} raised {type(e).__name__}", write)
            return
        SEAM.disarm()
        st.next_id = max(st.next_id, max(ev["out"]) + 1)
        name = ev["op"]
        if name in ("conv1d", "conv2d") and len(ins) > 2:
            st.probes["conv_with_bias"] += 1
        if name == "batch_norm_run":
            st.probes["batch_norm_training_running_stats" if ev["args"]["training"] else "batch_norm_eval"] += 1
        if name in ("nll_loss_t", "cross_entropy_t"):
            st.probes["class_loss_with_target_tensor"] += 1
        self._frame(st, f"forward of {name}", write)
        for o in ev["out"]:
            self._reg_tensor(st, o)
        if not write and name not in ("dropout",):
            if not hasattr(st, "first_results"):
                st.first_results = {}
            if len(st.first_results) < 12:
                st.first_results[ev["out"][0]] = {"ev": ev, "ins": [self._take(G.T[i].data) for i in ins], "outs": [self._take(t.data) for t in res],
                                                  "modes": st.world.modes()}
        if ev.get("repeat") and not write:
            first = [self._take(t.data) for t in res]
            for rep in range(int(ev["repeat"])):
                try:
                    with quiet():
                        again = ops.as_list(ops.apply_op(SG, name, [G.T[i] for i in ins], ev["args"]))
                except SimFault:
                    raise
                except Exception as e:
                    st.fail("C11.repeatable", f"{name} succeeded once and raised {type(e).__name__} when repeated on unchanged operands")
                st.probes["repeat_op_bit_identical"] += 1
                for k, (a, t) in enumerate(zip(first, again)):
                    if self._take(t.data) != a:
                        st.fail("C11.repeatable", f"{name}: repetition #{rep + 2} of the operation on unchanged operands gave different bytes (output {k})", op=name)
                self._frame(st, f"repeated forward of {name}", write)

    def _ev_clone(self, st, ev, how="clone"):
        G = st.G
        i = ev["t"]
        if i not in G.T:
            st.skipped += 1
            return
        t = G.T[i]
        self._pre(st, [])
        try:
            with quiet():
                c = t.clone() if how == "clone" else t.detach()
        except Exception as e:
            st.fail("C11.clone_detach", f"{how}() raised {type(e).__name__}: {e}")
        if np.shares_memory(c.data, t.data):
            st.fail("C11.clone_detach", f"{how}() returned storage that shares memory with its source", tensor=i)
        if self._take(c.data) != self._take(t.data):
            st.fail("C11.clone_detach", f"{how}() returned different values/shape/dtype than its source", tensor=i)
        st.probes["clone_detach_independent"] += 1
        j = ev["id"]
        G.T[j] = c
        if how == "clone":
            cev = {"k": "op", "op": "clone", "in": [i], "args": {}, "out": [j]}
            G.meta[j] = {"kind": "node", "ev": cev, "k": 0, "inputs": [i], "rg": bool(c.requires_grad)}
            G.op_events.append(cev)
        else:
            G.meta[j] = {"kind": "leaf", "inputs": [], "rg": False}
        st.next_id = max(st.next_id, j + 1)
        self._frame(st, f"{how}()")
        self._reg_tensor(st, j)

    def _ev_detach(self, st, ev):
        self._ev_clone(st, ev, "detach")

    def _ev_zero(self, st, ev):
        G = st.G
        ids = [i for i in ev["ids"] if i in G.T]
        write = [("grad", i) for i in ids]
        self._pre(st, write)
        for i in ids:
            st.must("C11.harness_zero", "zero_()", G.T[i].zero_)
        st.probes["zero_reset"] += 1
        self._frame(st, "zero_()", write)

    def _ev_opt_new(self, st, ev):
        G = st.G
        ids = [i for i in ev["params"] if i in G.T and G.meta[i]["kind"] == "leaf" and G.T[i].data.dtype.kind == "f"]
        if not ids or st.opt is not None:
            st.skipped += 1
            return
        O = st.SG.optim
        ps = [G.T[i] for i in ids]
        st.opt = st.must("C11.harness_optimizer", f"constructing {ev['kind']} over float leaves (some of them not requiring grad)",
                         lambda: O.SGD(ps, lr=0.05, momentum=ev["mom"], weight_decay=ev["wd"]) if ev["kind"] == "SGD" else getattr(O, ev["kind"])(ps, lr=0.05, weight_decay=ev["wd"]))
        st.opt_ids = ids

    def _ev_step(self, st, ev):
        if st.opt is None:
            st.skipped += 1
            return
        write = [("data", i) for i in st.opt_ids]
        self._pre(st, write)
        try:
            with quiet():
                st.opt.step()
        except SimFault:
            raise
        except Exception:
            st.notes["step_raised"] += 1
        st.probes["optimizer_step"] += 1
        self._frame(st, "optimizer.step()", write)

    def _ev_init(self, st, ev):
        G = st.G
        i = ev["t"]
        if i not in G.T:
            st.skipped += 1
            return
        write = [("data", i)]
        self._pre(st, write)
        try:
            with quiet():
                getattr(st.SG.init, ev["fn"])(*([G.T[i]] + ([0.5] if ev["fn"] == "constant_" else [])))
        except SimFault:
            raise
        except Exception:
            st.notes["init_rejected"] += 1       # e.g. xavier on a 1-d tensor
            self._frame(st, f"rejected {ev['fn']}", [])
            return
        st.probes["initialiser"] += 1
        self._frame(st, ev["fn"], write)

    def _diff_reach(self, st, root):
        G = st.G
        seen, stack = set(), [root]
        while stack:
            i = stack.pop()
            if i in seen:
                continue
            seen.add(i)
            if G.meta[i]["kind"] == "node" and not G.meta[i]["rg"]:
                continue            # an untracked result (no_grad, constants only) is a cut
            stack.extend(G.meta[i]["inputs"])
        return seen

    def _ev_again(self, st, ev):
        G, SG = st.G, st.SG
        fr = getattr(st, "first_results", {}).get(ev["of"])
        if fr is None:
            st.skipped += 1
            return
        e0 = fr["ev"]
        ins = e0["in"]
        if any(i not in G.T for i in ins) or [self._take(G.T[i].data) for i in ins] != fr["ins"] or st.world.modes() != fr["modes"]:
            st.skipped += 1          # an operand was legitimately changed since (step, initialiser): not "unchanged operands"
            return
        self._pre(st, [])
        try:
            with quiet():
                again = ops.as_list(ops.apply_op(SG, e0["op"], [G.T[i] for i in ins], e0["args"]))
        except SimFault:
            raise
        except Exception as e:
            st.fail("C11.repeatable", f"{e0['op']} succeeded earlier and raised {type(e).__name__} when issued again later on unchanged operands")
        st.probes["earlier_op_issued_again_later"] += 1
        for k, (a, t) in enumerate(zip(fr["outs"], again)):
            if self._take(t.data) != a:
                st.fail("C11.repeatable", f"{e0['op']}: issued again later on unchanged operands (after other library calls in between) it gave different bytes "
                        f"(output {k}): a result depends on what other calls left behind in the library", op=e0["op"])
        self._frame(st, f"{e0['op']} issued again", [])

    def _ev_backward(self, st, ev):
        G, SG = st.G, st.SG
        root = ev["root"]
        if root not in G.T or not G.T[root].requires_grad:
            st.skipped += 1
            return
        t = G.T[root]
        g = None if ev["g"] is None else dec(ev["g"], ev.get("layout", "C"))
        if (g is None and t.data.size != 1) or (g is not None and g.shape != t.data.shape):
            st.skipped += 1
            return
        reach = self._diff_reach(st, root)
        # the graph being differentiated: tracked results, and leaves that require grad now.  A frozen operand (requires_grad switched
        # off) or anything behind a no_grad cut is OUTSIDE it: neither its data nor its gradient may change.
        write = [("grad", i) for i in reach if G.T[i].requires_grad]
        gt = None
        if g is not None:
            if ev.get("g_other_dtype") and t.data.dtype.kind == "f":
                # a seed of the OTHER floating dtype than the root (a float64 weight vector on a float32 graph, or the reverse)
                g = g.astype(np.float32 if t.data.dtype == np.float64 else np.float64)
                st.probes["caller_g_of_other_dtype"] += 1
            else:
                g = g.astype(t.data.dtype) if t.data.dtype != g.dtype else g
            st.keep.append(g)
            gt = SG.Tensor(g)
            n = st.n_g
            st.n_g += 1
            self._reg(st, ("g", f"{n}:tensor"), lambda x=gt: x.data)
            self._reg(st, ("g", f"{n}:array"), lambda a=g: a)
            st.probes["backward_with_caller_g"] += 1
            st.nontrivial = True
        if any(j in st.swept for j in reach if j != root):
            st.probes["caller_g_reachable_from_second_sweep"] += 1
        if root in st.swept or any(j in st.swept for j in reach):
            st.probes["second_backward_same_graph"] += 1
            st.nontrivial = True
        self._pre(st, write)
        fault = ev.get("fault")
        if fault:
            SEAM.arm_spec(fault)
        try:
            with quiet():
                t.backward(gt)
        except SimFault:
            st.faults[f"sweep_{fault.get('seam', 'kernel')}_{fault['kind']}"] += 1
            st.probes["sweep_fault"] += 1
        except Exception:
            st.notes["backward_raised"] += 1
        SEAM.disarm()
        if g is not None:
            st.swept.add(root)
        self._frame(st, f"backward(root={root})", write)
