"""progsim - C03: gradients of arbitrary op compositions obey the chain rule on any DAG.

A program = leaves + op steps over the whole catalogue (generated online in a canonical
order so shapes/values are read from the real tensors), a root, an upstream gradient,
and up to 3 further construction orders (linear extensions of the same DAG, each run in
a fresh world, with gc.collect() at scheduler-chosen points).  Faults: steps the library
must reject (F1) and kernel faults in forward steps (F2): the step yields no tensor and
the program continues without it.

Oracles
  O1 path-sum by tree expansion: the DAG unfolded into a tree (one consumer per tensor),
     built and differentiated with the same engine; leaf gradient must equal the sum over
     the leaf's copies.  Per-op kernels are the same on both sides, so a per-op VJP defect
     cancels: O1 isolates DAG handling.
  O2 exactly-once / valid order of backward functions (seam: BackwardFunction.__call__).
  O3 absolute derivative by central finite differences of the system's own forward, for
     programs over the smooth core with every value >= 1-d and float64; every op instance
     is first screened alone, so O3 states exactly "if each op is right, the composition is".
  O4 construction-order independence.
Not asserted: order among independent nodes, bit-equality between schedules, retained grads.
"""
import gc

import numpy as np

from simkit import ops
from simkit.core import RunState, Sim, enc, dec, small_values
from simkit.graph import Graph, TooBig
from simkit.world import World, SEAM, SimFault, quiet, fresh_modes

PROG_OPS = [n for n in ops.ALL_OPS if n not in ("batch_norm",)]
O3_OPS = [n for n in ops.SMOOTH_OPS]


def rand_dir(rng, shape, positive=False):
    n = int(np.prod(shape)) if len(shape) else 1
    vals = [0.25, 0.5, 0.75, 1.0] if positive else [-1.0, -0.5, 0.5, 1.0, 0.25, -0.75]
    return np.array([rng.choice(vals) for _ in range(n)]).reshape(shape)


class ProgSim(Sim):
    PROP = "C03"
    NAME = "progsim"
    QUICK_RUNS = 15000
    THOROUGH_RUNS = 300000
    MAX_EVENTS = 40
    PROBES = ["diamond", "path_length_mismatch", "same_operand_twice", "fanout3", "unbind_2_outputs_used", "frozen_joins_trainable",
              "nonscalar_root_nonuniform_g", "O1_judged", "O3_judged", "O3_skipped_perop_defect", "O4_schedules",
              "gc_between_steps", "forward_fault", "rejected_step", "interrupted_sweep_then_same_program_again", "leaf_without_grad", "float32_node_in_program", "scalar_root_g_none",
              "multi_contribution_leaf", "O5_frozen_invariance", "deep_program", "flagmix_scenario"]
    RULE = ("one run = one generated DAG program (2-6 leaves, 3-16 steps over the op catalogue, biased per run to a scenario) differentiated "
            "under 1-4 construction orders; distinct = canonical form of the op DAG reachable from the root (op names, sharing pattern, which "
            "leaves require grad) x number of schedules; non-trivial = the root depends on a leaf through at least two op steps")
    ASSUMPTIONS = ["per-op VJPs are not judged here (C01/C02): O1 uses the same kernels on both sides, O3 screens every op instance alone first",
                   "0-d results are float32 on this tree; tolerances follow the lowest-precision dtype in the program"]

    def knobs(self, rng, tier):
        o3 = rng.random() < 0.4
        pool = O3_OPS if o3 else PROG_OPS
        kn = self._knobs(rng, tier, o3, pool)
        kn["max_events"] = 6000 if kn["scenario"] == "deep" else 60
        if kn["scenario"] == "deep":
            kn["n_sched"] = 0          # (one construction order: the deep scenario is about depth)
        return kn

    def _knobs(self, rng, tier, o3, pool):
        return {
            "max_events": 40, "o3": o3, "n_leaves": rng.randint(2, 6), "n_steps": rng.randint(3, 16),
            "ops": sorted(rng.sample(pool, rng.randint(5, len(pool)))),
            "scenario": rng.choice(["free", "diamond", "fanout", "chain", "xx", "unbind", "frozen", "flagmix", "flagmix"] + (["deep"] if rng.random() < 0.02 else [])),
            "f32": (not o3) and rng.random() < 0.25, "base": [rng.randint(1, 3), rng.randint(1, 4)],
            "n_sched": rng.randint(0, 3), "faulty": rng.random() < 0.3, "n_joins": rng.randint(0, 4),
        }

    # ------------------------------------------------------------------ state
    def start(self, knobs):
        st = RunState(knobs)
        st.world = World()
        st.SG = st.world.SG
        st.G = Graph(st.SG)
        st.next_id = 0
        st.phase = "leaves"
        st.n_ops = 0
        st.root = None
        st.g = None
        st.canon = None       # {leaf: grad f64} of the canonical order
        st.abs = None         # {leaf: sum |terms|}
        st.low = False
        st.floor = 0.0
        st.hot = []
        st.sched_done = 0
        st.pending = []
        st.joins = 0
        st.scripted = False
        return st

    # ------------------------------------------------------------------ generation
    def gen(self, rng, st):
        kn = st.knobs
        G = st.G
        if st.pending:
            return st.pending.pop(0)
        if st.phase == "leaves" and kn["scenario"] in ("flagmix", "deep") and not st.scripted:
            st.scripted = True
            evs = self._script_flagmix(rng, st) if kn["scenario"] == "flagmix" else self._script_deep(rng, st)
            st.pending.extend(evs[1:])
            st.phase = "backward"
            return evs[0]
        if st.phase == "leaves":
            if len(G.T) < kn["n_leaves"]:
                return self._gen_leaf(rng, st)
            st.phase = "ops"
        if st.phase == "ops":
            if st.n_ops < kn["n_steps"]:
                st.n_ops += 1
                ev = self._gen_op(rng, st)
                if ev is not None:
                    return ev
            st.phase = "join"
        if st.pending:
            return st.pending.pop(0)
        if st.phase == "join":
            # merge branches: sinks (results nobody consumed yet) are reduced and combined, so the root reaches most of the program
            used = set()
            for e in G.op_events:
                used.update(e["in"])
            sinks = [i for i in sorted(G.T) if G.meta[i]["kind"] == "node" and i not in used and G.T[i].requires_grad
                     and np.isfinite(G.T[i].data).all() and (np.abs(G.T[i].data).max() if G.T[i].data.size else 0) < 1e4 and G.T[i].data.size > 0]
            if len(sinks) >= 2 and st.joins < kn["n_joins"]:
                st.joins += 1
                a, b = rng.sample(sinks, 2)
                nid = st.next_id
                evs = []
                ids = []
                for x in (a, b):
                    if G.T[x].data.ndim >= 1:
                        evs.append({"k": "op", "op": rng.choice(["mean", "sum"]), "in": [x], "args": {"dim": None, "keepdims": True}, "out": [nid]})
                        ids.append(nid)
                        nid += 1
                    else:
                        ids.append(x)
                evs.append({"k": "op", "op": rng.choice(["add", "mul", "sub"]), "in": ids, "args": {}, "out": [nid]})
                st.pending.extend(evs[1:])
                return evs[0]
            st.phase = "backward"
        if st.phase == "backward":
            st.phase = "sched"
            cands = [i for i in G.T if G.T[i].requires_grad and G.meta[i]["kind"] == "node"]
            if not cands:
                return None
            # prefer late nodes (deep graphs)
            cands.sort()
            root = cands[-1] if rng.random() < 0.6 else rng.choice(cands)
            t = G.T[root]
            if t.data.size == 1 and rng.random() < 0.5:
                g = None
            else:
                g = enc(small_values(rng, t.data.shape, np.float64, -2, 2, avoid_zero=True))
            ev = {"k": "backward", "root": root, "g": g}
            if kn["faulty"] and rng.random() < 0.35:
                # a first sweep over the program is interrupted (at a backward function, or at an arbitrary line); the caller resets the
                # leaves and differentiates the SAME program again: that sweep must satisfy every clause
                n = max(1, len(st.G.reach(root)))
                ev["pre_fault"] = ({"kind": rng.choice(["alloc", "interrupt", "exit"]), "seam": "bw", "at": rng.randint(1, n)} if rng.random() < 0.5 else
                                   {"kind": rng.choice(["alloc", "interrupt", "exit"]), "seam": "line", "at": rng.randint(1, 60 + 110 * n)})
            return ev
        if st.phase == "sched":
            if st.root is None or st.sched_done >= kn["n_sched"]:
                return None
            st.sched_done += 1
            evs = G.events_for(G.reach(st.root))
            order = self._linear_extension(rng, G, evs)
            gcs = sorted(rng.sample(range(len(order)), min(len(order), rng.randint(0, 2))))
            return {"k": "schedule", "order": [e["out"][0] for e in order], "gc": gcs}
        return None

    # ---- scripted scenarios ------------------------------------------------------------------------------------------
    def _script_flagmix(self, rng, st):
        """one multi-operand op applied to fresh leaves under a random mix of requires_grad flags, joined with a trainable anchor so
        that the root requires grad whatever the op makes of the mix (the statement: 'a mix of operands that do and do not require grad')"""
        kind = rng.choice(["add", "mul", "sub", "div", "matmul", "addmm", "linear", "linear_nobias", "conv1d", "conv2d", "concat", "stack",
                           "mse_loss", "bce_logits", "batch_norm", "F.add"])
        n, c, h = rng.randint(2, 3), rng.randint(1, 3), rng.randint(2, 3)
        shapes = {"add": [(n, c), (n, c)], "mul": [(n, c), (1, c)], "sub": [(n, c), (n, 1)], "div": [(n, c), (n, c)], "F.add": [(c,), (n, c)],
                  "matmul": [(n, c), (c, h)], "addmm": [(n, h), (n, c), (c, h)], "linear": [(n, c), (h, c), (h,)], "linear_nobias": [(n, c), (h, c)],
                  "conv1d": [(n, c, 4), (h, c, 2), (h,)], "conv2d": [(n, c, 3, 3), (h, c, 2, 2), (h,)], "concat": [(n, c), (n, c), (n, c)],
                  "stack": [(n, c), (n, c), (n, c)], "mse_loss": [(n, c), (n, c)], "bce_logits": [(n, c), (n, c)], "batch_norm": [(n + 1, c), (c,), (c,)]}[kind]
        flags = [rng.random() < 0.5 for _ in shapes]
        if not any(flags):
            flags[rng.randrange(len(flags))] = True
        evs = []
        ids = []
        for sh, fl in zip(shapes, flags):
            i = st.next_id + len(evs)
            vals = small_values(rng, sh, np.float64, -2, 2, avoid_zero=True)
            if kind == "div" and len(ids) == 1:
                vals = np.abs(vals) + 0.5
            evs.append({"k": "leaf", "id": i, "data": enc(vals), "rg": fl})
            ids.append(i)
        nid = st.next_id + len(evs)
        args = {"dim": rng.choice([0, 1, -1])} if kind in ("concat", "stack") else {"s": 1, "p": 0, "d": 1} if kind == "conv1d" else \
            {"s": [1, 1], "p": [0, 0], "d": [1, 1]} if kind == "conv2d" else {"affine": True} if kind == "batch_norm" else {}
        evs.append({"k": "op", "op": "linear" if kind == "linear_nobias" else kind, "in": ids, "args": args, "out": [nid]})
        # anchor: a trainable leaf joined in, so that backward runs even if the op result (wrongly) does not require grad
        evs.append({"k": "leaf", "id": nid + 1, "data": enc(small_values(rng, (1,), np.float64, -2, 2, avoid_zero=True)), "rg": True})
        evs.append({"k": "op", "op": "mean", "in": [nid], "args": {"dim": None, "keepdims": True}, "out": [nid + 2]})
        evs.append({"k": "op", "op": "sum", "in": [nid + 1], "args": {"dim": None, "keepdims": True}, "out": [nid + 3]})
        evs.append({"k": "op", "op": rng.choice(["add", "mul"]), "in": [nid + 2, nid + 3], "args": {}, "out": [nid + 4]})
        return evs

    def _script_deep(self, rng, st):
        """a program deeper than the interpreter's recursion limit: the chain rule has no depth bound"""
        depth = rng.choice([1100, 1500, 2200])
        evs = [{"k": "leaf", "id": st.next_id, "data": enc(small_values(rng, (3,), np.float64, -2, 2, avoid_zero=True)), "rg": True},
               {"k": "leaf", "id": st.next_id + 1, "data": enc(small_values(rng, (3,), np.float64, 0.5, 1.5, avoid_zero=True)), "rg": True}]
        cur = st.next_id
        w = st.next_id + 1
        nid = st.next_id + 2
        level = 0
        for i in range(depth):
            r = rng.random()
            if r < 0.25:
                c = 2.0 if level <= 0 else 0.5
                level += 1 if c == 2.0 else -1
                evs.append({"k": "op", "op": "mul_scalar", "in": [cur], "args": {"c": c}, "out": [nid]})
            elif r < 0.45:
                evs.append({"k": "op", "op": "add_scalar", "in": [cur], "args": {"c": 0.25}, "out": [nid]})
            elif r < 0.55:
                evs.append({"k": "op", "op": "F.neg", "in": [cur], "args": {}, "out": [nid]})
            elif r < 0.75:
                evs.append({"k": "op", "op": "tanh", "in": [cur], "args": {}, "out": [nid]})
            elif r < 0.9:
                evs.append({"k": "op", "op": "mul", "in": [cur, w], "args": {}, "out": [nid]})        # the recurrence h = h*w (+b): w is consumed at every level
            else:
                evs.append({"k": "op", "op": "add", "in": [cur, w], "args": {}, "out": [nid]})
            cur = nid
            nid += 1
        return evs

    def _linear_extension(self, rng, G, evs):
        done = set(G.leaves())
        left = list(evs)
        out = []
        while left:
            ready = [e for e in left if all(i in done for i in e["in"])]
            if not ready:
                break
            e = rng.choice(ready)
            out.append(e)
            left.remove(e)
            done.update(e["out"])
        return out

    def _gen_leaf(self, rng, st):
        kn = st.knobs
        b = kn["base"]
        if kn["o3"]:
            shapes = [tuple(b), (b[1],), (1, b[1]), (b[0], 1), (b[1], b[0]), (b[1], b[1]), (2, b[0], b[1]), (1,)]
            w = [6, 3, 2, 2, 3, 2, 1, 1]
        else:
            shapes = [tuple(b), (b[1],), (1, b[1]), (b[0], 1), (b[1], b[0]), (), (1,), (b[1], b[1]), (2, b[0], b[1]), (1, 2, 4), (1, 2, 3, 4), (2, 2, 3)]
            w = [6, 3, 2, 2, 3, 1, 1, 2, 2, 2, 2, 2]
        shape = rng.choices(shapes, w)[0]
        dt = np.float32 if (kn["f32"] and rng.random() < 0.5) else np.float64
        if rng.random() < 0.01 and not kn["o3"]:
            shape = (257, 256)                                   # rarely a LARGE leaf (size-dependent fast paths)
            vals = (np.random.RandomState(rng.randrange(2 ** 31)).randint(-128, 128, size=shape) / 64.0).astype(dt)
        else:
            vals = small_values(rng, shape, dt, -2, 2, avoid_zero=rng.random() < 0.6)
        leaves = st.G.leaves()
        if kn["scenario"] == "frozen":
            rg = rng.random() < 0.5 if any(st.G.meta[i]["rg"] for i in leaves) else True
        else:
            rg = True if not any(st.G.meta[i]["rg"] for i in leaves) else rng.random() < 0.8
        i = st.next_id
        return {"k": "leaf", "id": i, "data": enc(vals), "rg": rg}

    def _gen_op(self, rng, st):
        kn = st.knobs
        G = st.G
        pool = [ops.Ref(i, t) for i, t in G.T.items()]
        pool = [r for r in pool if r.finite and r.mag <= 64 and r.kind == "f"]
        sc = kn["scenario"]
        nodes = [r for r in pool if G.meta[r.id]["kind"] == "node"]
        if sc in ("diamond", "fanout") and rng.random() < 0.6:
            if not st.hot or rng.random() < 0.2:
                st.hot = [r.id for r in rng.sample(pool, min(len(pool), 2))]
            sub = [r for r in pool if r.id in st.hot] + nodes[-2:]
            pool = sub or pool
        elif sc == "chain" and nodes and rng.random() < 0.7:
            pool = nodes[-1:] + [r for r in pool if G.meta[r.id]["kind"] == "leaf"]
        if sc in ("free", "frozen", "unbind") and nodes and rng.random() < 0.5:
            used = set()
            for e in G.op_events:
                used.update(e["in"])
            sinks = [r for r in nodes if r.id not in used]
            if sinks:
                pool = sinks[-3:] + [r for r in pool if G.meta[r.id]["kind"] == "leaf"] + nodes[-2:]
        opts = {"keep_nd": kn["o3"], "same_operand_p": 0.5 if sc == "xx" else 0.12}
        allowed = kn["ops"]
        if sc == "unbind" and rng.random() < 0.35 and "unbind" in ops.SPECS:
            allowed = ["unbind"]
        if kn["faulty"] and rng.random() < 0.06 and pool:
            a = rng.choice(pool)
            bad = rng.choice(["matmul_1d", "sum_bad_dim", "add_incompatible", "concat_mismatch", "reshape_bad"])
            return {"k": "bad_op", "how": bad, "in": [a.id]}
        got = ops.gen_op(rng, pool, allowed, opts)
        if got is None:
            got = ops.gen_op(rng, [r for r in [ops.Ref(i, t) for i, t in G.T.items()] if r.finite and r.mag <= 64 and r.kind == "f"], kn["ops"], opts)
            if got is None:
                return None
        name, ins, args = got
        nout = args.get("n", 1) if name == "unbind" else 1
        outs = list(range(st.next_id, st.next_id + nout))
        ev = {"k": "op", "op": name, "in": ins, "args": args, "out": outs}
        if kn["faulty"] and rng.random() < 0.05:
            ev["fault"] = {"kind": rng.choice(["alloc", "interrupt", "exit"]), "at": rng.randint(1, 2)}
        return ev

    # ------------------------------------------------------------------ events
    def apply(self, st, ev):
        getattr(self, "_ev_" + ev["k"])(st, ev)

    def _ev_leaf(self, st, ev):
        t = st.SG.Tensor(dec(ev["data"]), requires_grad=ev["rg"])
        st.G.add_leaf(ev["id"], t)
        st.next_id = max(st.next_id, ev["id"] + 1)
        if not ev["rg"]:
            st.probes["leaf_without_grad"] += 1

    def _ev_bad_op(self, st, ev):
        G, SG = st.G, st.SG
        if not G.has_inputs(ev):
            st.skipped += 1
            return
        a = G.T[ev["in"][0]]
        try:
            with quiet():
                how = ev["how"]
                if how == "matmul_1d":
                    SG.sg.matmul(a, SG.Tensor(np.ones(3)))
                elif how == "sum_bad_dim":
                    a.sum(a.data.ndim + 2)
                elif how == "add_incompatible":
                    a + SG.Tensor(np.ones((5, 7, 11, 13)))
                elif how == "concat_mismatch":
                    SG.sg.concat([a, SG.Tensor(np.ones(tuple(s + 1 for s in a.data.shape) or (2,)))], 0)
                else:
                    a.reshape((a.data.size + 1,))
        except SimFault:
            raise
        except Exception:
            st.probes["rejected_step"] += 1
            return
        st.notes["bad_op_accepted"] += 1

    def _ev_op(self, st, ev):
        G = st.G
        if not G.has_inputs(ev):
            st.skipped += 1
            return
        fault = ev.get("fault")
        if fault:
            SEAM.arm(fault["kind"], fault["at"])
        try:
            with quiet():
                res = G.apply(ev, trace_bfs=True)
        except SimFault:
            SEAM.disarm()
            st.faults["forward_" + fault["kind"]] += 1
            st.probes["forward_fault"] += 1
            return
        except Exception as e:
            SEAM.disarm()
            st.notes["op_rejected"] += 1
            return
        SEAM.disarm()
        st.next_id = max(st.next_id, max(ev["out"]) + 1)
        flags = [G.T[i].requires_grad for i in ev["in"]]
        if any(flags) and not all(flags):
            st.probes["frozen_joins_trainable"] += 1
        if len(set(ev["in"])) < len(ev["in"]):
            st.probes["same_operand_twice"] += 1

    # ------------------------------------------------------------------ oracles
    def _leaf_grads(self, G, fresh, ids):
        out = {}
        for i in ids:
            with quiet():
                g = fresh[i].grad
            out[i] = None if g is None else np.asarray(g.data, dtype=np.float64).copy()
        return out

    def _shape_probes(self, st, reach, root):
        G = st.G
        consumers = {i: set() for i in reach}
        for i in reach:
            m = G.meta[i]
            if m["kind"] == "node":
                for j in set(m["inputs"]):
                    consumers[j].add(m["ev"]["out"][0])
        if any(len(c) >= 2 for c in consumers.values()):
            st.probes["diamond"] += 1
        if any(len(c) >= 3 for c in consumers.values()):
            st.probes["fanout3"] += 1
        # path-length mismatch: min and max depth from the root differ for some node
        dmin, dmax = {root: 0}, {root: 0}
        for i in sorted(reach, reverse=True):
            if i not in dmin:
                continue
            for j in G.meta[i]["inputs"]:
                dmin[j] = min(dmin.get(j, 10 ** 9), dmin[i] + 1)
                dmax[j] = max(dmax.get(j, -1), dmax[i] + 1)
        if any(dmin[i] != dmax[i] for i in dmin):
            st.probes["path_length_mismatch"] += 1
        used_unbind = {}
        for i in reach:
            m = G.meta[i]
            if m["kind"] == "node" and m["ev"]["op"] == "unbind":
                used_unbind.setdefault(id(m["ev"]), set()).add(i)
        if any(len(v) >= 2 for v in used_unbind.values()):
            st.probes["unbind_2_outputs_used"] += 1
        return consumers, max(dmax.values()) if dmax else 0

    def _signature(self, st, reach):
        G = st.G
        num = {}
        parts = []
        for i in sorted(reach):
            num[i] = len(num)
        for i in sorted(G.leaves(reach)):
            parts.append(f"L{num[i]}{'g' if G.meta[i]['rg'] else 'n'}")
        for ev in G.events_for(reach):
            parts.append(ev["op"] + "(" + ",".join(str(num[j]) for j in ev["in"]) + ")")
        return parts

    def _screen_op(self, st, ev, rng_seed):
        """differentiate one op instance alone and compare with its own finite difference.
        returns None if fine, else a short reason"""
        import random
        G, SG = st.G, st.SG
        rng = random.Random(rng_seed)
        xs_live = [G.T[i] for i in ev["in"]]
        uniq = {}
        for i, t in zip(ev["in"], xs_live):
            uniq.setdefault(i, t)
        # every float operand requires grad here: the screening asks "is this op's VJP right?", not "does it handle this mix of
        # flags?" - the latter is C03's own clause ("a mix of operands that do and do not require grad") and stays with O3/O5
        flags = {i: t.data.dtype.kind == "f" for i, t in uniq.items()}
        if not any(flags.values()):
            return None

        def forward(vals, rg):
            fr = {i: SG.Tensor(np.array(vals[i], dtype=np.float64, copy=True), requires_grad=rg and flags[i]) for i in uniq}
            res = ops.as_list(ops.apply_op(SG, ev["op"], [fr[i] for i in ev["in"]], ev["args"]))
            return fr, res

        base = {i: np.asarray(t.data, dtype=np.float64) for i, t in uniq.items()}
        try:
            with fresh_modes(SG), quiet():
                fr, res = forward(base, True)
                for k in range(min(len(res), 3)):
                    if k > 0:
                        fr, res = forward(base, True)
                    out = res[k]
                    if not out.requires_grad:
                        return f"{ev['op']}: result does not require grad"
                    g = rand_dir(rng, out.data.shape)
                    out.backward(SG.Tensor(g.copy()))
                    for i in uniq:
                        if not flags[i]:
                            continue
                        gr = fr[i].grad
                        gr = np.zeros(base[i].shape) if gr is None else np.asarray(gr.data, dtype=np.float64)
                        for positive in (True, False):      # an all-positive direction (scale errors cannot cancel) and a signed one
                            v = rand_dir(rng, base[i].shape, positive)
                            h = 1e-6
                            vp = dict(base); vp[i] = base[i] + h * v
                            vm = dict(base); vm[i] = base[i] - h * v
                            fp = float(np.sum(g * np.asarray(forward(vp, False)[1][k].data, dtype=np.float64)))
                            fm = float(np.sum(g * np.asarray(forward(vm, False)[1][k].data, dtype=np.float64)))
                            fd = (fp - fm) / (2 * h)
                            an = float(np.sum(gr * v))
                            M = max([1.0, float(np.abs(out.data).max()) if out.data.size else 0.0] + [float(np.abs(b).max()) for b in base.values() if b.size])
                            scale = (float(np.sum(np.abs(gr) * np.abs(v))) + 1e-3 * float(np.sum(np.abs(g) * np.abs(np.asarray(out.data, dtype=np.float64))))
                                     + 1e-3 * M * max(1.0, float(np.abs(g).sum())))
                            if not abs(fd - an) <= 2e-5 * scale:
                                return f"{ev['op']}: vjp {an!r} vs finite difference {fd!r}"
        except SimFault:
            raise
        except Exception as e:
            return f"{ev['op']}: {type(e).__name__}: {e}"
        return None

    def _ev_backward(self, st, ev):
        G, SG = st.G, st.SG
        root = ev["root"]
        if root not in G.T or not G.T[root].requires_grad:
            st.skipped += 1
            return
        t = G.T[root]
        g = None if ev["g"] is None else dec(ev["g"])
        if (g is None and t.data.size != 1) or (g is not None and g.shape != t.data.shape):
            st.skipped += 1
            return
        reach = G.reach(root)
        rg_leaves = [i for i in G.leaves(reach) if G.meta[i]["rg"]]
        consumers, depth = self._shape_probes(st, reach, root)
        if depth >= 2:
            st.nontrivial = True
        if g is None:
            st.probes["scalar_root_g_none"] += 1
        elif t.data.size > 1 and len(set(np.asarray(g).reshape(-1).tolist())) > 1:
            st.probes["nonscalar_root_nonuniform_g"] += 1
        # 0-d results are re-wrapped as float32 on this tree (also hidden intermediates of composite operator forms,
        # e.g. b**-1 inside a/b for a 0-d b), so any 0-d value puts the program in the float32 tolerance class
        st.low = any(G.T[i].data.dtype == np.float32 or G.T[i].data.ndim == 0 for i in reach)
        if st.low:
            st.probes["float32_node_in_program"] += 1
        if any(len(consumers[i]) >= 2 or sum(1 for j in reach if G.meta[j]["kind"] == "node" and G.meta[j]["inputs"].count(i) >= 2) for i in rg_leaves):
            st.probes["multi_contribution_leaf"] += 1
        st.sig = (self._signature(st, reach) if len(reach) < 200 else [f"deep{len(reach) // 500}"]) + [f"S{st.knobs['n_sched']}"]
        if st.knobs["scenario"] == "flagmix":
            st.probes["flagmix_scenario"] += 1

        pf = ev.get("pre_fault")
        if pf:
            gt0 = None if g is None else SG.Tensor(g.copy())
            try:
                with quiet(), SEAM.armed(pf):
                    t.backward(gt0)
            except SimFault as e:
                st.faults[f"sweep_{pf['seam']}_{pf['kind']}"] += 1
                st.probes["interrupted_sweep_then_same_program_again"] += 1
                st.kept = getattr(st, "kept", []) + [e]
            except Exception:
                pass
            SEAM.disarm()
            for i in G.leaves(reach):
                if G.T[i].requires_grad:
                    with quiet():
                        G.T[i].zero_()
        # ---- the system: one backward on the DAG, traced through the backward-function seam
        SEAM.bw_calls = []
        raised = None
        try:
            with quiet():
                t.backward(None if g is None else SG.Tensor(g.copy()))
        except SimFault:
            raise
        except Exception as e:
            raised = e
        calls = SEAM.bw_calls
        SEAM.bw_calls = None
        evs = G.events_for(reach)
        if raised is not None:
            bad = [r for r in (self._screen_op(st, e, 1000 + n) for n, e in enumerate(evs)) if r]
            if bad:
                st.notes["perop_defect:" + bad[0].split(":")[0]] += 1
                st.probes["O3_skipped_perop_defect"] += 1
                return
            st.fail("C03.backward_raises", f"backward on the program raised {type(raised).__name__}: {raised}, although every op instance differentiates alone", root=root)
        dag = self._leaf_grads(G, G.T, rg_leaves)
        for i in G.leaves(reach):
            if not G.meta[i]["rg"]:
                with quiet():
                    if G.T[i].grad is not None and np.any(G.T[i].grad.data):
                        st.fail("C03.nograd_leaf_got_gradient", f"leaf {i} does not require grad but holds a non-zero gradient after backward", leaf=i)
        st.root, st.g = root, g

        # ---- O2: exactly once, valid order
        pos = {}
        for n, bf in enumerate(calls):
            pos.setdefault(id(bf), []).append(n)
        expected = {}       # id(bf) -> label
        ev_bfs = {}
        for e in evs:
            created = G.bfs.get(id(e), [])
            results_in_reach = [o for o in e["out"] if o in reach]
            res_fns = {id(G.T[o].grad_fn): o for o in e["out"] if G.T[o].grad_fn is not None}
            mine = []
            for bf in created:
                if id(bf) in res_fns:
                    if res_fns[id(bf)] in reach:
                        expected[id(bf)] = f"{e['op']}->{res_fns[id(bf)]}"
                        mine.append(id(bf))
                else:
                    expected[id(bf)] = f"{e['op']}(inner)"
                    mine.append(id(bf))
            for o in results_in_reach:
                fn = G.T[o].grad_fn
                if fn is not None and id(fn) not in expected:
                    expected[id(fn)] = f"{e['op']}->{o}"
                    mine.append(id(fn))
            ev_bfs[id(e)] = mine
        for k, label in expected.items():
            n = len(pos.get(k, []))
            if n != 1:
                st.fail("C03.exactly_once", f"backward function of {label} was invoked {n} times in one backward call (expected once)", root=root)
        extra = [k for k in pos if k not in expected]
        if extra:
            st.fail("C03.exactly_once", f"{len(extra)} backward function(s) outside the sub-graph reachable from the root were invoked", root=root)
        for i in reach:
            m = G.meta[i]
            if m["kind"] != "node" or G.T[i].grad_fn is None:
                continue
            mypos = pos[id(G.T[i].grad_fn)][0]
            for c in consumers[i]:
                cev = G.meta[c]["ev"]
                # only the consumer's RESULT functions: inner functions of a composite operator form (the *-1 of a-b, the **-1 of a/b)
                # need not lie between this node and the consumer's result, so nothing is required of them
                for k in [id(G.T[o].grad_fn) for o in cev["out"] if o in reach and G.T[o].grad_fn is not None]:
                    if pos[k][0] > mypos:
                        st.fail("C03.topological_order", f"backward function of node {i} ({m['ev']['op']}) ran before that of its consumer {cev['op']}->{cev['out']}", root=root)

        # ---- O1: path-sum by tree expansion
        eps = 1.2e-7 if st.low else 2.3e-16
        absum = None
        deep = len(evs) > 400
        if deep:
            st.probes["deep_program"] += 1
        try:
            if deep:
                raise TooBig()        # (the expansion is recursive in the harness; deep programs are judged by O2, O3 and O5)
            with fresh_modes(SG), quiet():
                troot, clones = G.expand_tree(root)
                SG.T.retain_grads__ = True        # keep interior gradients of the tree: their magnitude bounds the rounding noise of the kernels
                troot.backward(None if g is None else SG.Tensor(g.copy()))
                st.probes["O1_judged"] += 1
                mg = [float(np.abs(x._grad).max()) for x in G.tree_made if getattr(x, "_grad", None) is not None and x._grad.size]
                md = [float(np.abs(x.data).max()) for x in G.tree_made if x.data.size]
                st.floor = max(mg + [0.0]) * max(md + [1.0])
                absum = {}
                for i in rg_leaves:
                    net = np.zeros(G.T[i].data.shape)
                    ab = np.zeros(G.T[i].data.shape)
                    for c in clones.get(i, []):
                        gr = c.grad
                        if gr is not None:
                            a = np.asarray(gr.data, dtype=np.float64)
                            net, ab = net + a, ab + np.abs(a)
                    absum[i] = ab
                    obs = dag[i] if dag[i] is not None else np.zeros(net.shape)
                    if obs.shape != net.shape:
                        st.fail("C03.path_sum", f"leaf {i}: gradient has shape {obs.shape}, leaf has {net.shape}", leaf=i)
                    # J(g1+g2) vs Jg1+Jg2: cancellation INSIDE a kernel leaves noise ~ eps * |upstream gradient| * |values|
                    tol = 64 * eps * (ab + st.floor + 1e-30) + 1e-300
                    err = np.abs(obs - net)
                    if not np.all(err <= tol):
                        st.fail("C03.path_sum", f"leaf {i}: gradient on the DAG differs from the sum over all paths (tree expansion with the same kernels): "
                                f"max abs err {float(err.max()):.3g}", leaf=i, observed=obs.tolist(), expected=net.tolist())
        except TooBig:
            st.probes["O1_skipped_too_big"] += 1
        except SimFault:
            raise
        except Exception as e:
            if type(e).__name__ == "StopRun":
                raise
            st.notes["tree_expansion_raised"] += 1
        st.canon = dag
        st.abs = absum

        # ---- O5: frozen-operand invariance.  Whether OTHER leaves require grad must not change the gradient of the leaves that do:
        # the same program with every float leaf requiring grad must give the originally trainable leaves the same gradient.
        frozen = [i for i in G.leaves(reach) if not G.meta[i]["rg"] and G.T[i].data.dtype.kind == "f"]
        if frozen and rg_leaves:
            try:
                with fresh_modes(SG), quiet():
                    fresh, _ = G.rebuild(root, rg=True)
                    fresh[root].backward(None if g is None else SG.Tensor(g.copy()))
                    allrg = self._leaf_grads(G, fresh, rg_leaves)
            except SimFault:
                raise
            except Exception:
                allrg = None
                st.notes["o5_allgrad_variant_raised"] += 1
            if allrg is not None:
                st.probes["O5_frozen_invariance"] += 1
                for i in rg_leaves:
                    a = dag[i] if dag[i] is not None else np.zeros(G.T[i].data.shape)
                    b = allrg[i] if allrg[i] is not None else np.zeros(G.T[i].data.shape)
                    ab = absum[i] if absum is not None else np.abs(a) + np.abs(b)
                    tol = 64 * eps * (ab + st.floor + 1e-30) + 1e-300
                    if a.shape != b.shape or not np.all(np.abs(a - b) <= tol):
                        st.fail("C03.frozen_operand_invariance", f"leaf {i}: its gradient changes when OTHER leaves of the same program are made to require grad "
                                f"(max abs diff {float(np.max(np.abs(a - b))):.3g}): operands that do not require grad are mishandled", leaf=i,
                                with_frozen_operands=a.tolist(), all_trainable=b.tolist())

        # ---- O3: absolute derivative by finite differences of the system's own forward
        if (st.knobs["o3"] or deep) and not st.low and all(G.T[i].data.ndim >= 1 and G.T[i].data.dtype == np.float64 for i in reach) and \
                all(ops.SPECS[e["op"]].smooth for e in evs):
            seen_ops = set()
            bad = []
            for n, e in enumerate(evs):
                if deep and e["op"] in seen_ops:
                    continue               # deep chains repeat a handful of op forms: screen each form once
                seen_ops.add(e["op"])
                r = self._screen_op(st, e, 2000 + n)
                if r:
                    bad.append(r)
            if bad:
                st.notes["perop_defect:" + bad[0].split(":")[0]] += 1
                st.probes["O3_skipped_perop_defect"] += 1
            else:
                self._o3(st, root, g, reach, rg_leaves, dag, absum)

    def _o3(self, st, root, g, reach, rg_leaves, dag, absum):
        import random
        G, SG = st.G, st.SG
        rng = random.Random(777 + root)
        gg = np.ones(G.T[root].data.shape) if g is None else g
        base = {i: np.asarray(G.T[i].data, dtype=np.float64) for i in G.leaves(reach)}
        M = max([1.0] + [float(np.abs(G.T[i].data).max()) for i in reach if G.T[i].data.size]) * max(1.0, float(np.abs(gg).sum()))

        def phi(vals):
            with fresh_modes(SG), quiet():
                fr, _ = G.rebuild(root, leaf_data=vals, rg=False)
            return float(np.sum(gg * np.asarray(fr[root].data, dtype=np.float64))), float(np.sum(np.abs(gg) * np.abs(np.asarray(fr[root].data, dtype=np.float64))))

        try:
            for i, positive in [(i, p) for i in rg_leaves for p in (True, False)]:
                v = rand_dir(rng, base[i].shape, positive)
                h = 1e-6
                vp = dict(base); vp[i] = base[i] + h * v
                vm = dict(base); vm[i] = base[i] - h * v
                (fp, ap), (fm, _) = phi(vp), phi(vm)
                fd = (fp - fm) / (2 * h)
                gr = dag[i] if dag[i] is not None else np.zeros(base[i].shape)
                an = float(np.sum(gr * v))
                ab = absum[i] if absum is not None else np.abs(gr)
                # noise floor of the finite difference: rounding of intermediates (magnitude M) divided by h
                scale = float(np.sum(ab * np.abs(v))) + 1e-3 * ap + 1e-3 * M
                if not abs(fd - an) <= 2e-5 * scale:
                    st.fail("C03.chain_rule_fd", f"leaf {i}: directional derivative from backward {an!r} differs from the central finite difference of the "
                            f"forward {fd!r} (scale {scale:.3g}) although every op instance passes alone", leaf=i)
            st.probes["O3_judged"] += 1
        except SimFault:
            raise
        except Exception as e:
            if type(e).__name__ == "StopRun":
                raise
            st.notes["o3_forward_raised"] += 1

    def _ev_schedule(self, st, ev):
        G, SG = st.G, st.SG
        if st.root is None or st.canon is None:
            st.skipped += 1
            return
        root, g = st.root, st.g
        reach = G.reach(root)
        by_out = {e["out"][0]: e for e in G.events_for(reach)}
        order = [by_out[o] for o in ev["order"] if o in by_out]
        if len(order) != len(by_out):
            st.skipped += 1
            return
        done = set(G.leaves(reach))
        for e in order:
            if not all(i in done for i in e["in"]):
                st.skipped += 1
                return
            done.update(e["out"])
        gcs = set(ev.get("gc", []))

        def hook(n):
            if n in gcs:
                gc.collect()
                st.probes["gc_between_steps"] += 1
        rg_leaves = [i for i in G.leaves(reach) if G.meta[i]["rg"]]
        try:
            with fresh_modes(SG), quiet():
                fresh, _ = G.rebuild(root, order=order, hook=hook)
                fresh[root].backward(None if g is None else SG.Tensor(g.copy()))
                got = self._leaf_grads(G, fresh, rg_leaves)
        except SimFault:
            raise
        except Exception as e:
            st.fail("C03.schedule_independence", f"building the same program in another construction order and differentiating it raised {type(e).__name__}: {e}")
        st.probes["O4_schedules"] += 1
        eps = 1.2e-7 if st.low else 2.3e-16
        for i in rg_leaves:
            a = st.canon[i] if st.canon[i] is not None else np.zeros(G.T[i].data.shape)
            b = got[i] if got[i] is not None else np.zeros(G.T[i].data.shape)
            ab = st.abs[i] if st.abs is not None else np.abs(a) + np.abs(b)
            tol = 64 * eps * (ab + st.floor + 1e-30) + 1e-300
            if a.shape != b.shape or not np.all(np.abs(a - b) <= tol):
                st.fail("C03.schedule_independence", f"leaf {i}: gradient depends on the order in which independent branches were built "
                        f"(max abs diff {float(np.max(np.abs(a - b))):.3g})", leaf=i, canonical=a.tolist(), other=b.tolist())
