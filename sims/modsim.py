"""modsim - C12: module trees report each parameter once and propagate mode to all descendants.

State machine over <= 12 modules (custom containers, Linear, BatchNorm1d, parameter-free
activations, Sequential positional / ordered-dict) and stand-alone Parameters.  Events:
attribute assignment of a Module / Parameter / None / plain value on any node (first
assignment, re-assignment to another kind, same object under a second name or a second
parent), register_module/register_parameter (also with wrong types: F1), train / eval /
freeze / unfreeze / zero_grad on any node (gradients produced by a real backward first),
queries (parameters, submodules, num_params), Sequential calls with logging submodules.
Cycles are not generated.

Oracle (TreeModel): parameters() is exactly the set of reachable Parameter objects, each
ONCE (identity); own parameters in registration order; parameters of an earlier-registered
child before those of a later one; num_params = sum of sizes over that set split by
requires_grad; train/eval set exactly the reachable modules; freeze/unfreeze/zero_grad act
on exactly the reachable parameters; re-assigning a name replaces what it contributes;
Sequential calls submodules in registration order.

Not asserted: own-before-children order, the slot a name takes when it is re-assigned to ANOTHER kind, zero_grad on
frozen parameters, empty Sequential.
"""
from collections import OrderedDict

import numpy as np

from simkit.core import RunState, Sim, small_values, enc, dec
from simkit.world import World, SEAM, SimFault, quiet

NAMES = ["a", "b", "c", "fc", "w", "head", "_body", "_", "__x", "Layer0", "x1"]       # (names with leading underscores are ordinary attribute names)


class Slot:
    __slots__ = ("kind", "obj", "reassigned")

    def __init__(self, kind, obj, reassigned=False):
        self.kind, self.obj, self.reassigned = kind, obj, reassigned


class ModSim(Sim):
    PROP = "C12"
    NAME = "modsim"
    QUICK_RUNS = 32000
    THOROUGH_RUNS = 400000
    MAX_EVENTS = 50
    PROBES = ["shared_parameter_two_names", "shared_module_two_parents", "reassign_module_to_param", "reassign_param_to_module",
              "reassign_to_none", "reassign_to_plain", "reassign_same_kind", "wrong_type_registration_refused", "assign_before_init_refused",
              "depth3", "train_eval_on_inner_node", "freeze_on_inner_node", "zero_grad_with_unreachable_grads", "sequential_positional",
              "sequential_ordered_dict", "sequential_call", "explicit_register_api", "num_params_mixed_trainable", "freeze_inside_no_grad",
              "mode_call_interrupted_then_reissued", "apply_fn_visits_all", "apply_fn_callback_raised_then_continued",
              "callers_ordered_dict_reused_after_construction"]
    RULE = ("one run = a seeded sequence of construction/assignment/registration/mode/freeze/zero_grad/query events on a forest of modules; "
            "distinct = hash of the event-kind sequence with the sharing/re-assignment pattern; non-trivial = some module reached depth >= 2 "
            "or a name was re-assigned or an object was shared")

    def knobs(self, rng, tier):
        return {"max_events": rng.randint(10, 50), "share": rng.random() < 0.6, "reassign": rng.random() < 0.6,
                "n_mods": rng.randint(3, 12), "seq": rng.random() < 0.5, "faulty": rng.random() < 0.35}

    # ------------------------------------------------------------------ state
    def start(self, knobs):
        st = RunState(knobs)
        st.world = World()
        SG = st.SG = st.world.SG
        st.M = {}        # mid -> module object
        st.P = {}        # pid -> Parameter
        st.slots = {}    # mid -> OrderedDict name -> Slot   (model registries; insertion order = first registration order)
        st.mode = {}     # mid -> bool (training)
        st.kind = {}
        st.calllog = []
        st.next_mid = 0
        st.next_tag = 1000
        st.pending = []
        st.od = {}       # mid -> the caller's OrderedDict a Sequential was built from (the caller keeps using it)
        st.kept = []     # exceptions the caller caught and keeps (their tracebacks keep frames alive)

        class Box(SG.nn.Module):
            def __init__(self):
                super().__init__()

            def forward(self, x):
                return x

        class Tag(SG.nn.Module):
            def __init__(self, tag, log):
                super().__init__()
                self.tag = tag
                self.log = log

            def forward(self, x):
                self.log.append(self.tag)
                return x * 2.0 + float(self.tag)
        st.Box, st.Tag = Box, Tag
        return st

    # ------------------------------------------------------------------ model helpers
    def _mid_of(self, st, obj):
        for k, v in st.M.items():
            if v is obj:
                return k
        return None

    def _reach_mods(self, st, mid):
        seen, order, stack = set(), [], [mid]
        while stack:
            m = stack.pop()
            if m in seen:
                continue
            seen.add(m)
            order.append(m)
            for s in st.slots[m].values():
                if s.kind == "module":
                    c = self._mid_of(st, s.obj)
                    if c is not None:
                        stack.append(c)
        return order

    def _reach_params(self, st, mid):
        out = []
        for m in self._reach_mods(st, mid):
            for s in st.slots[m].values():
                if s.kind == "param" and not any(s.obj is p for p in out):
                    out.append(s.obj)
        return out

    def _would_cycle(self, st, parent, child):
        return parent in self._reach_mods(st, child)

    def _depth(self, st, mid, seen=()):
        d = 0
        for s in st.slots[mid].values():
            if s.kind == "module":
                c = self._mid_of(st, s.obj)
                if c is not None and c not in seen:
                    d = max(d, 1 + self._depth(st, c, seen + (mid,)))
        return d

    # ------------------------------------------------------------------ generation
    def gen(self, rng, st):
        kn = st.knobs
        n_real = len([m for m in st.M if m < 1000])
        if n_real < 2 or (n_real < kn["n_mods"] and rng.random() < 0.25):
            kinds = ["box", "box", "box", "linear", "linear_nobias", "bn", "bn_noaffine", "bn_notrack", "bn2d_notrack_noaffine", "dropout", "relu"]
            if kn["seq"]:
                kinds += ["seq_pos", "seq_dict"]
            kind = rng.choice(kinds)
            ev = {"k": "new_module", "mid": st.next_mid, "kind": kind}
            if kind.startswith("seq"):
                n = rng.randint(1, 4) if rng.random() < 0.8 else rng.randint(10, 13)      # more than 10 positional entries: "10" < "9" as strings
                ev["tags"] = [rng.randint(1, 9) for _ in range(n)]
                ev["keys"] = rng.sample(["x", "y", "z", "u", "v", "k10", "k2", "a", "b", "c", "m", "n", "o"], n)
            return ev
        if len(st.P) < 2 or rng.random() < 0.08:
            shape = rng.choice([(2,), (3, 2), (1,), (2, 2)])
            return {"k": "new_param", "pid": len(st.P), "data": enc(small_values(rng, shape, np.float32, -2, 2)), "rg": rng.random() < 0.8}
        mids = sorted(st.M)
        if st.pending:
            return st.pending.pop(0)
        r = rng.random()
        if r < 0.34:
            mod = rng.choice(mids)
            name = rng.choice(NAMES)
            used = list(st.slots[mod])
            if used and kn["reassign"] and rng.random() < 0.45:
                name = rng.choice(used)
            c = rng.random()
            if c < 0.42:
                cands = [m for m in mids if not self._would_cycle(st, mod, m)]
                if not kn["share"]:
                    placed = {self._mid_of(st, s.obj) for ss in st.slots.values() for s in ss.values() if s.kind == "module"}
                    cands = [m for m in cands if m not in placed]
                if cands:
                    ev = {"k": "setattr", "mod": mod, "name": name, "value": {"module": rng.choice(cands)}}
                    if kn.get("faulty") and rng.random() < 0.15:
                        ev["fault"] = {"kind": rng.choice(["alloc", "interrupt", "exit"]), "seam": "line", "at": rng.randint(1, 14)}
                    return ev
            if c < 0.80:
                pids = sorted(st.P)
                if not kn["share"]:
                    placed = [s.obj for ss in st.slots.values() for s in ss.values() if s.kind == "param"]
                    pids = [p for p in pids if not any(st.P[p] is o for o in placed)]
                if pids:
                    ev = {"k": "setattr", "mod": mod, "name": name, "value": {"param": rng.choice(pids)}}
                    if kn.get("faulty") and rng.random() < 0.15:
                        ev["fault"] = {"kind": rng.choice(["alloc", "interrupt", "exit"]), "seam": "line", "at": rng.randint(1, 14)}
                    return ev
            if c < 0.9:
                return {"k": "setattr", "mod": mod, "name": name, "value": None}
            return {"k": "setattr", "mod": mod, "name": name, "value": {"plain": rng.randint(0, 5)}}
        if r < 0.42:
            mod = rng.choice(mids)
            api = rng.choice(["register_module", "register_parameter"])
            bad = rng.random() < 0.4
            if api == "register_module":
                cands = [m for m in mids if not self._would_cycle(st, mod, m)]
                val = {"param": rng.choice(sorted(st.P))} if bad else ({"module": rng.choice(cands)} if cands else None)
            else:
                val = {"module": rng.choice(mids)} if bad else {"param": rng.choice(sorted(st.P))}
            if val is None:
                return {"k": "query", "mod": mod}
            return {"k": "register", "mod": mod, "name": rng.choice(NAMES), "api": api, "value": val, "bad": bad}
        def fault(p, hi):
            if kn.get("faulty") and rng.random() < p:
                return {"kind": rng.choice(["alloc", "interrupt", "exit"]), "seam": "line", "at": rng.randint(1, hi)}
            return None
        if r < 0.52:
            mod = rng.choice(mids)
            ev = {"k": "mode", "mod": mod, "v": rng.choice(["train", "eval"])}
            f = fault(0.25, 6 + 8 * len(self._reach_mods(st, mod)))
            if f:
                # crash point inside the propagation; the caller catches it and issues the call again
                ev["fault"] = f
                st.pending.append({"k": "mode", "mod": mod, "v": rng.choice(["train", "eval"])})
            return ev
        if r < 0.56:
            # Module.apply(fn) with a callback that records its visits and may raise at the k-th module (caller catches and carries on)
            mod = rng.choice(mids)
            n = len(self._reach_mods(st, mod))
            ev = {"k": "apply_fn", "mod": mod, "raise_at": rng.randint(1, n) if rng.random() < 0.5 else None,
                  "exc": rng.choice(["ValueError", "KeyboardInterrupt", "StopIteration"])}
            st.pending.append({"k": "mode", "mod": mod, "v": rng.choice(["train", "eval"])})
            if rng.random() < 0.5:
                st.pending.append({"k": "apply_fn", "mod": mod, "raise_at": None, "exc": "ValueError"})
            return ev
        if r < 0.64:
            ev = {"k": rng.choice(["freeze", "unfreeze"]), "mod": rng.choice(mids), "in_no_grad": rng.random() < 0.25}
            f = fault(0.2, 40)
            if f:
                ev["fault"] = f
                st.pending.append({"k": ev["k"], "mod": ev["mod"], "in_no_grad": False})
            return ev
        if r < 0.72:
            return {"k": "grads"}
        if r < 0.80:
            ev = {"k": "zero_grad", "mod": rng.choice(mids)}
            f = fault(0.2, 60)
            if f:
                ev["fault"] = f
                st.pending.append({"k": "zero_grad", "mod": ev["mod"]})
            return ev
        if r < 0.83 and st.od:
            # the caller goes on using the OrderedDict a Sequential was built from
            src = rng.choice(sorted(st.od))
            return {"k": "od_mutate", "mod": src, "how": rng.choice(["add", "del", "replace", "clear"]), "tag": rng.randint(1, 9),
                    "key": rng.choice(["q", "r", "s"]), "second": st.next_mid if rng.random() < 0.5 else None}
        if r < 0.84:
            return {"k": "bad_init"}
        if r < 0.90:
            seqs = [m for m in mids if st.kind[m].startswith("seq") and any(s.kind == "module" for s in st.slots[m].values())]
            if seqs:
                return {"k": "seq_call", "mod": rng.choice(seqs)}
        return {"k": "query", "mod": rng.choice(mids)}

    # ------------------------------------------------------------------ events
    def apply(self, st, ev):
        st.sig.append(ev["k"])
        getattr(self, "_ev_" + ev["k"])(st, ev)
        self._check_modes(st, f"after {ev['k']}")
        if any(self._depth(st, m) >= 2 for m in st.M):
            st.nontrivial = True
            st.probes["depth3"] += any(self._depth(st, m) >= 3 for m in st.M)

    def _ev_new_module(self, st, ev):
        SG = st.SG
        kind = ev["kind"]
        mid = ev["mid"]
        slots = OrderedDict()
        if kind == "box":
            m = st.Box()
        elif kind in ("linear", "linear_nobias"):
            m = SG.nn.Linear(3, 2, bias=(kind == "linear"))
            slots["weight"] = Slot("param", m.weight)
            if kind == "linear":
                slots["bias"] = Slot("param", m.bias)
        elif kind in ("bn", "bn_noaffine", "bn_notrack", "bn2d_notrack_noaffine"):
            cls = SG.nn.BatchNorm2d if kind.startswith("bn2d") else SG.nn.BatchNorm1d
            affine = kind in ("bn", "bn_notrack")
            m = cls(3, affine=affine, track_running_stats=kind in ("bn", "bn_noaffine"), momentum=None if kind == "bn_noaffine" else 0.1)
            if affine:
                slots["weight"] = Slot("param", m.weight)
                slots["bias"] = Slot("param", m.bias)
        elif kind == "dropout":
            m = SG.nn.Dropout(0.5)
        elif kind == "relu":
            m = SG.nn.ReLU()
        else:
            tags = [st.Tag(t, st.calllog) for t in ev["tags"]]
            for t in tags:
                tm = st.next_tag
                st.next_tag += 1
                st.M[tm] = t
                st.slots[tm] = OrderedDict()
                st.mode[tm] = True
                st.kind[tm] = "tag"
            if kind == "seq_pos":
                m = SG.nn.Sequential(*tags)
                keys = [str(i) for i in range(len(tags))]
                st.probes["sequential_positional"] += 1
            else:
                keys = ev["keys"]
                st.od[mid] = od = OrderedDict(zip(keys, tags))
                m = SG.nn.Sequential(od)
                st.probes["sequential_ordered_dict"] += 1
            for k, t in zip(keys, tags):
                slots[k] = Slot("module", t)
        for s in slots.values():
            if s.kind == "param" and s.obj is None:
                st.fail("C12.harness", "library layer has no parameter where documented")
        st.M[mid] = m
        st.slots[mid] = slots
        st.mode[mid] = True
        st.kind[mid] = kind
        st.next_mid = max(st.next_mid, mid + 1)

    def _ev_new_param(self, st, ev):
        SG = st.SG
        st.P[ev["pid"]] = SG.nn.Parameter(SG.Tensor(dec(ev["data"]), requires_grad=ev["rg"]))

    def _value(self, st, v):
        if v is None:
            return "none", None
        if "module" in v:
            return ("module", st.M.get(v["module"]))
        if "param" in v:
            return ("param", st.P.get(v["param"]))
        return "plain", v["plain"]

    def _model_assign(self, st, mod, name, kind, obj):
        slots = st.slots[mod]
        old = slots.get(name)
        if kind in ("module", "param"):
            if old is not None:
                if old.kind != kind:
                    st.probes["reassign_module_to_param" if old.kind == "module" else "reassign_param_to_module"] += 1
                    del slots[name]          # leaves the other registry; joins this one at the end
                    slots[name] = Slot(kind, obj, True)
                else:
                    # "replacing an attribute replaces its registration": the new object takes the PLACE of the old one
                    # (replacing layer '0' of a Sequential must not move it behind the others)
                    st.probes["reassign_same_kind"] += 1
                    slots[name] = Slot(kind, obj, old.reassigned)
                st.nontrivial = True
            else:
                slots[name] = Slot(kind, obj)
            # sharing probes
            n = sum(1 for ss in st.slots.values() for s in ss.values() if s.obj is obj)
            if n >= 2:
                st.probes["shared_parameter_two_names" if kind == "param" else "shared_module_two_parents"] += 1
                st.nontrivial = True
        else:
            if old is not None:
                st.probes["reassign_to_none" if kind == "none" else "reassign_to_plain"] += 1
                del slots[name]
                st.nontrivial = True

    def _ev_setattr(self, st, ev):
        mod = ev["mod"]
        if mod not in st.M:
            st.skipped += 1
            return
        kind, obj = self._value(st, ev["value"])
        if kind in ("module", "param") and obj is None:
            st.skipped += 1
            return
        if kind == "module":
            c = self._mid_of(st, obj)
            if c is None or self._would_cycle(st, mod, c):
                st.skipped += 1
                return
        if st.kind[mod] == "tag" or (kind != "module" and ev["name"] in ("tag", "log")):
            st.skipped += 1
            return
        try:
            with SEAM.armed(ev.get("fault")):
                st.must("C12.assignment_raises", f"setattr({ev['name']!r}, {kind})", setattr, st.M[mod], ev["name"], obj)
        except SimFault as e:
            # interrupted registration: the caller assigns again
            st.kept.append(e)
            st.faults["setattr_line_" + ev["fault"]["kind"]] += 1
            st.must("C12.assignment_raises", f"setattr({ev['name']!r}, {kind}) after an interrupted one", setattr, st.M[mod], ev["name"], obj)
            self._model_assign(st, mod, ev["name"], kind, obj)
            if ev["name"] in st.slots[mod]:
                st.slots[mod][ev["name"]].reassigned = True
            self._check_query(st, mod, "after an interrupted and re-issued attribute assignment")
            return
        self._model_assign(st, mod, ev["name"], kind, obj)
        self._check_query(st, mod, "after attribute assignment")

    def _ev_register(self, st, ev):
        mod = ev["mod"]
        if mod not in st.M:
            st.skipped += 1
            return
        kind, obj = self._value(st, ev["value"])
        if obj is None:
            st.skipped += 1
            return
        if kind == "module" and not ev["bad"]:
            c = self._mid_of(st, obj)
            if c is None or self._would_cycle(st, mod, c):
                st.skipped += 1
                return
        m = st.M[mod]
        before = [id(p) for p in self._safe_params(st, m)]
        try:
            getattr(m, ev["api"])(ev["name"], obj)
        except Exception as e:
            if ev["bad"]:
                st.probes["wrong_type_registration_refused"] += 1
                if [id(p) for p in self._safe_params(st, m)] != before:
                    st.fail("C12.refused_registration_changed_state", "a refused registration changed parameters()")
                self._check_query(st, mod, "after refused registration")
                return
            st.fail("C12.assignment_raises", f"{ev['api']}({ev['name']!r}) raised {type(e).__name__}: {e}")
        if ev["bad"]:
            st.fail("C12.wrong_type_registration_accepted", f"{ev['api']} accepted a {kind}")
        st.probes["explicit_register_api"] += 1
        self._model_assign(st, mod, ev["name"], kind, obj)
        self._check_query(st, mod, "after explicit registration")

    def _ev_bad_init(self, st, ev):
        SG = st.SG

        class Bad(SG.nn.Module):
            def __init__(self):
                self.p = SG.nn.Parameter(SG.Tensor(np.ones(2, dtype=np.float32), requires_grad=True))
                super().__init__()
        try:
            Bad()
        except Exception:
            st.probes["assign_before_init_refused"] += 1
            return
        st.notes["assign_before_init_accepted"] += 1

    def _safe_params(self, st, m):
        return st.must("C12.parameters_raises", "parameters()", m.parameters)

    def _check_modes(self, st, where):
        for mid, m in st.M.items():
            if st.mode[mid] is not None and bool(m.training) != st.mode[mid]:
                st.fail("C12.mode", f"{where}: module {mid} ({st.kind[mid]}) has training={m.training}, the tree model says {st.mode[mid]}", module=mid)

    def _ev_mode(self, st, ev):
        mod = ev["mod"]
        if mod not in st.M:
            st.skipped += 1
            return
        m = st.M[mod]
        reach = self._reach_mods(st, mod)
        try:
            with SEAM.armed(ev.get("fault")):
                st.must("C12.mode_call_raises", ev["v"] + "()", getattr(m, ev["v"]))
        except SimFault as e:
            st.kept.append(e)
            st.faults["mode_line_" + ev["fault"]["kind"]] += 1
            st.probes["mode_call_interrupted_then_reissued"] += 1
            for r in reach:
                st.mode[r] = None          # interrupted propagation: unknown until the next completed call that covers the module
            return
        for r in reach:
            st.mode[r] = ev["v"] == "train"
        if len(reach) < len(st.M) and any(mod in self._reach_mods(st, o) for o in st.M if o != mod):
            st.probes["train_eval_on_inner_node"] += 1

    def _ev_freeze(self, st, ev, freeze=True):
        mod = ev["mod"]
        if mod not in st.M:
            st.skipped += 1
            return
        m = st.M[mod]
        reach = self._reach_params(st, mod)
        allp = self._all_params(st)
        before = {id(p): bool(p.requires_grad) for p in allp}
        if ev.get("in_no_grad"):
            # e.g. at the end of an evaluation phase: the call must act the same whatever the grad mode
            st.probes["freeze_inside_no_grad"] += 1
            with st.SG.sg.no_grad():
                st.must("C12.freeze_raises", "freeze()/unfreeze() inside no_grad", m.freeze if freeze else m.unfreeze)
        else:
            try:
                with SEAM.armed(ev.get("fault")):
                    st.must("C12.freeze_raises", "freeze()/unfreeze()", m.freeze if freeze else m.unfreeze)
            except SimFault as e:
                st.kept.append(e)
                st.faults["freeze_line_" + ev["fault"]["kind"]] += 1
                for p in allp:
                    if not any(p is q for q in reach) and bool(p.requires_grad) != before[id(p)]:
                        st.fail("C12.freeze", f"interrupted freeze/unfreeze on module {mod} changed a parameter NOT reachable from it", module=mod)
                return
        for p in allp:
            want = (not freeze) if any(p is q for q in reach) else before[id(p)]
            if bool(p.requires_grad) != want:
                st.fail("C12.freeze", f"{'freeze' if freeze else 'unfreeze'}() on module {mod}: a parameter "
                        f"{'reachable from it' if any(p is q for q in reach) else 'NOT reachable from it'} has requires_grad={p.requires_grad}", module=mod)
        if any(mod in self._reach_mods(st, o) for o in st.M if o != mod):
            st.probes["freeze_on_inner_node"] += 1
        self._check_query(st, mod, "after freeze/unfreeze")

    def _ev_unfreeze(self, st, ev):
        self._ev_freeze(st, ev, False)

    def _all_params(self, st):
        out = []
        for p in list(st.P.values()) + [s.obj for ss in st.slots.values() for s in ss.values() if s.kind == "param"]:
            if not any(p is q for q in out):
                out.append(p)
        return out

    def _ev_grads(self, st, ev):
        # a real backward gives every trainable parameter a gradient
        SG = st.SG
        total = None
        for p in self._all_params(st):
            if p.requires_grad:
                t = (p * p).sum()
                total = t if total is None else total + t
        if total is not None:
            with quiet():
                total.backward()

    def _ev_zero_grad(self, st, ev):
        mod = ev["mod"]
        if mod not in st.M:
            st.skipped += 1
            return
        m = st.M[mod]
        reach = self._reach_params(st, mod)
        allp = self._all_params(st)
        before = {id(p): (None if p._grad is None else p._grad.tobytes()) for p in allp}
        interrupted = False
        try:
            with SEAM.armed(ev.get("fault")):
                st.must("C12.zero_grad_raises", "zero_grad()", m.zero_grad)
        except SimFault as e:
            st.kept.append(e)
            st.faults["zero_grad_line_" + ev["fault"]["kind"]] += 1
            interrupted = True
        unreach_with_grad = False
        for p in allp:
            inside = any(p is q for q in reach)
            with quiet():
                g = p.grad
            if inside:
                if not interrupted and p.requires_grad and g is not None and np.any(g.data):
                    st.fail("C12.zero_grad", f"zero_grad() on module {mod} left a non-zero gradient on a reachable trainable parameter", module=mod)
            else:
                now = None if g is None else g.data.tobytes()
                if before[id(p)] is not None:
                    unreach_with_grad = True
                if now != before[id(p)]:
                    st.fail("C12.zero_grad", f"zero_grad() on module {mod} changed the gradient of a parameter that is not reachable from it", module=mod)
        if unreach_with_grad:
            st.probes["zero_grad_with_unreachable_grads"] += 1

    def _ev_apply_fn(self, st, ev):
        mod = ev["mod"]
        if mod not in st.M:
            st.skipped += 1
            return
        m = st.M[mod]
        reach = self._reach_mods(st, mod)
        seen = []
        exc = {"ValueError": ValueError, "KeyboardInterrupt": KeyboardInterrupt, "StopIteration": StopIteration}[ev["exc"]]

        def fn(x):
            seen.append(x)
            if ev["raise_at"] is not None and len(seen) == ev["raise_at"]:
                raise exc("callback refuses this module")
        try:
            m.apply(fn)
            raised = None
        except (ValueError, KeyboardInterrupt, StopIteration, RuntimeError) as e:
            raised = e
            st.kept.append(e)
        ids = [self._mid_of(st, x) for x in seen]
        if any(i is None or i not in reach for i in ids):
            st.fail("C12.apply", f"apply(fn) on module {mod} visited an object that is not a module reachable from it", module=mod)
        if ev["raise_at"] is None or len(seen) < ev["raise_at"]:
            if raised is not None:
                st.fail("C12.apply", f"apply(fn) on module {mod} raised {type(raised).__name__}: {raised} although the callback did not", module=mod)
            if set(ids) != set(reach):
                st.fail("C12.apply", f"apply(fn) on module {mod} visited {len(set(ids))} of the {len(reach)} modules reachable from it", module=mod)
            st.probes["apply_fn_visits_all"] += 1
        else:
            if raised is None:
                st.notes["apply_swallowed_callback_exception"] += 1
            st.probes["apply_fn_callback_raised_then_continued"] += 1
        self._check_query(st, mod, "after apply(fn)")

    def _ev_od_mutate(self, st, ev):
        src = ev["mod"]
        if src not in st.od or src not in st.M:
            st.skipped += 1
            return
        od = st.od[src]
        how = ev["how"]
        if how in ("add", "replace"):
            key = ev["key"] if how == "add" or not od else sorted(od)[ev["tag"] % len(od)]
            t = st.Tag(ev["tag"], st.calllog)
            tm = st.next_tag
            st.next_tag += 1
            st.M[tm], st.slots[tm], st.mode[tm], st.kind[tm] = t, OrderedDict(), True, "tag"
            od[key] = t
        elif how == "del" and od:
            del od[sorted(od)[ev["tag"] % len(od)]]
        elif how == "clear":
            od.clear()
        st.probes["callers_ordered_dict_reused_after_construction"] += 1
        st.nontrivial = True
        if ev.get("second") is not None and od:
            # a second, different model built from the same (now changed) dict
            mid = ev["second"]
            m2 = st.must("C12.sequential_ctor_raises", "Sequential(OrderedDict)", st.SG.nn.Sequential, od)
            st.M[mid] = m2
            st.slots[mid] = OrderedDict((k, Slot("module", t)) for k, t in od.items())
            st.mode[mid] = True
            st.kind[mid] = "seq_dict"
            st.od[mid] = od
            st.next_mid = max(st.next_mid, mid + 1)
            self._check_query(st, mid, "second Sequential from the caller's dict")
        # the first container is exactly what it was
        self._check_query(st, src, "after the caller changed ITS OrderedDict")
        self._ev_seq_call(st, {"mod": src})

    def _ev_query(self, st, ev):
        if ev["mod"] not in st.M:
            st.skipped += 1
            return
        self._check_query(st, ev["mod"], "query")

    def _check_query(self, st, mod, where):
        m = st.M[mod]
        got = self._safe_params(st, m)
        want = self._reach_params(st, mod)
        ids = [id(p) for p in got]
        if len(set(ids)) != len(ids):
            st.fail("C12.parameters_once", f"{where}: parameters() of module {mod} lists a parameter more than once "
                    f"({len(ids)} entries, {len(set(ids))} distinct objects)", module=mod)
        if set(ids) != {id(p) for p in want}:
            missing = len([p for p in want if id(p) not in ids])
            extra = len([i for i in ids if i not in {id(p) for p in want}])
            st.fail("C12.parameters_reachable", f"{where}: parameters() of module {mod} misses {missing} reachable parameter(s) and lists {extra} "
                    "that are not reachable (stale registration?)", module=mod)
        pos = {i: n for n, i in enumerate(ids)}
        # own parameters in registration order (never re-assigned, registered exactly once in the whole reachable tree)
        count = {}
        for r in self._reach_mods(st, mod):
            for s in st.slots[r].values():
                if s.kind == "param":
                    count[id(s.obj)] = count.get(id(s.obj), 0) + 1
        for r in self._reach_mods(st, mod):
            own = [s.obj for s in st.slots[r].values() if s.kind == "param" and not s.reassigned and count[id(s.obj)] == 1]
            for a, b in zip(own, own[1:]):
                if pos[id(a)] > pos[id(b)]:
                    st.fail("C12.registration_order", f"{where}: two own parameters of module {r} appear out of registration order in parameters() of {mod}", module=mod)
        # children: parameters exclusive to an earlier-registered child precede those exclusive to a later one
        kids = [(s, self._mid_of(st, s.obj)) for s in st.slots[mod].values() if s.kind == "module"]
        kids = [(s, c) for s, c in kids if c is not None]
        tainted = {c for s, c in kids if s.reassigned}      # the slot a re-assigned name takes is not asserted
        first = []
        for s, c in kids:          # a child registered under several names counts at its first registration
            if c not in tainted and c not in [k for _, k in first]:
                first.append((s, c))
        kids = first
        all_kids = {self._mid_of(st, s.obj) for s in st.slots[mod].values() if s.kind == "module"} - {None}
        sub = {c: {id(p) for p in self._reach_params(st, c)} for c in all_kids}      # incl. children whose slot is not asserted
        own_ids = {id(s.obj) for s in st.slots[mod].values() if s.kind == "param"}
        for x in range(len(kids)):
            for y in range(x + 1, len(kids)):
                cx, cy = kids[x][1], kids[y][1]
                if cx == cy:
                    continue
                others_x = set().union(*[v for k, v in sub.items() if k != cx], own_ids)
                others_y = set().union(*[v for k, v in sub.items() if k != cy], own_ids)
                ex = [i for i in sub[cx] if i not in others_x]
                ey = [i for i in sub[cy] if i not in others_y]
                if ex and ey and max(pos[i] for i in ex) > min(pos[i] for i in ey):
                    st.fail("C12.registration_order", f"{where}: parameters of a later-registered child of module {mod} precede those of an earlier one", module=mod)
        # submodules(): direct children, each registered name once, in registration order for never-re-assigned names
        subs = st.must("C12.submodules_raises", "submodules()", m.submodules)
        want_subs = [s.obj for s in st.slots[mod].values() if s.kind == "module"]
        if sorted(id(x) for x in subs) != sorted(id(x) for x in want_subs):
            st.fail("C12.submodules", f"{where}: submodules() of module {mod} has {len(subs)} entries, the tree model has {len(want_subs)} (stale or missing registration)", module=mod)
        # num_params
        tot = sum(int(p.data.size) for p in want)
        tr = sum(int(p.data.size) for p in want if p.requires_grad)
        n_all = st.must("C12.num_params_raises", "num_params()", m.num_params)
        n_tr = m.num_params(trainable=True)
        n_nt = m.num_params(non_trainable=True)
        if (int(n_all), int(n_tr), int(n_nt)) != (tot, tr, tot - tr):
            st.fail("C12.num_params", f"{where}: num_params of module {mod} = (all {n_all}, trainable {n_tr}, frozen {n_nt}), "
                    f"the reachable set gives ({tot}, {tr}, {tot - tr})", module=mod)
        if 0 < tr < tot:
            st.probes["num_params_mixed_trainable"] += 1

    def _ev_seq_call(self, st, ev):
        mod = ev["mod"]
        if mod not in st.M or not st.kind[mod].startswith("seq"):
            st.skipped += 1
            return
        m = st.M[mod]
        slots = [s for s in st.slots[mod].values() if s.kind == "module"]
        if not slots or any(not isinstance(s.obj, st.Tag) for s in slots):
            st.skipped += 1
            return
        SG = st.SG
        x = np.array([[1.0, -2.0]])
        del st.calllog[:]
        out = st.must("C12.sequential_call_raises", "Sequential.__call__", m, SG.Tensor(x.copy()))
        st.probes["sequential_call"] += 1
        tags = [s.obj.tag for s in slots]
        if sorted(st.calllog) != sorted(tags):
            st.fail("C12.sequential", f"Sequential called submodules {st.calllog}, registered are {tags}", module=mod)
        if any(s.reassigned for s in slots):
            return           # the slot a re-assigned name takes is not asserted
        if list(st.calllog) != tags:
            st.fail("C12.sequential", f"Sequential applied its submodules in order {list(st.calllog)}, registration order is {tags}", module=mod)
        want = x
        for t in tags:
            want = want * 2.0 + float(t)
        if not np.allclose(np.asarray(out.data, dtype=np.float64), want, rtol=1e-6, atol=1e-6):
            st.fail("C12.sequential", "Sequential output is not the composition of its submodules in registration order", module=mod)
