"""layersim - C13: Dropout and BatchNorm honour train/eval mode over any call history.

World: BatchNorm1d/2d with every (momentum in {None, (0,1]}, affine, track_running_stats,
dtype) and 2-D/3-D/4-D inputs, Dropout with p in {0, 1, (0,1)}; stand-alone or nested in a
container/Sequential so that train()/eval() arrives by propagation.  Events: train()/eval()
on the layer or an ancestor, forward on a fresh batch, backward through the last Dropout
output, direct overwrite of running statistics and affine parameters, kernel faults inside
a BN forward (F2).  The Dropout mask is randomness behind the seam: real seeded generator
or a stub stream with exactly known content.

Oracle: BNModel recurrences in float64 compared after every forward (output, running
mean / unbiased running var with exponential or cumulative factor, batch counter); eval
forwards change no buffer and are bit-identical when repeated.  Dropout: eval = identity;
training: every output element is 0 or x/(1-p), the input gradient is g*(out/x) (same mask),
masks of two calls and rows within a call differ, the zero fraction lies within a 1e-12
binomial tail of p; under the stub the mask is known exactly.

Not judged: BatchNorm gradients (C02).  After a fault inside a BN TRAINING forward that
layer's buffers are unknown for the rest of the run (nothing is promised about an
interrupted forward); an interrupted EVAL forward must have changed nothing.
"""
import numpy as np

from simkit.core import RunState, Sim, enc, dec, small_values
from simkit.rngseam import RngStub, binom_two_sided_tail
from simkit.world import World, SEAM, SimFault, quiet


def L_training_p(p):
    return 0 < p < 1


class BNModel:
    def __init__(self, C, eps, momentum, affine, track):
        self.C, self.eps, self.momentum, self.affine, self.track = C, eps, momentum, affine, track
        self.rm = np.zeros(C) if track else None
        self.rv = np.ones(C) if track else None
        self.nbt = 0
        self.unknown = False

    def forward(self, x, training, gamma, beta):
        x = np.asarray(x, dtype=np.float64)
        dims = tuple(i for i in range(x.ndim) if i != 1)
        shp = tuple(1 if i != 1 else x.shape[1] for i in range(x.ndim))
        n = x.size / x.shape[1]
        if training or not self.track:
            mean, var = x.mean(axis=dims), x.var(axis=dims)
        else:
            mean, var = self.rm, self.rv
        y = (x - mean.reshape(shp)) / np.sqrt(var.reshape(shp) + self.eps)
        if gamma is not None:
            y = y * np.asarray(gamma, dtype=np.float64).reshape(shp) + np.asarray(beta, dtype=np.float64).reshape(shp)
        if training and self.track:
            self.nbt += 1
            f = 1.0 / self.nbt if self.momentum is None else self.momentum
            self.rm = (1 - f) * self.rm + f * mean
            self.rv = (1 - f) * self.rv + f * var * n / (n - 1)
        return y


class LayerSim(Sim):
    PROP = "C13"
    NAME = "layersim"
    QUICK_RUNS = 12000
    THOROUGH_RUNS = 300000
    MAX_EVENTS = 30
    PROBES = ["bn_momentum_none", "bn_no_affine", "bn_no_tracking", "bn_eval_nontrivial_stats", "bn_3d_input", "bn_4d_input", "bn_2d_input",
              "bn_train_after_eval", "bn_eval_repeat", "bn_f64", "dropout_p0", "dropout_p1", "dropout_train", "dropout_eval", "dropout_stub_hit",
              "dropout_backward_same_mask", "dropout_two_pending_outputs_same_shape", "dropout_huge_sample", "dropout_independence", "mode_by_propagation", "fault_in_bn_training_forward", "fault_in_bn_eval_forward",
              "stats_overwritten", "bn_momentum_1", "bn_forward_untracked", "affine_updated_in_place", "affine_updated_by_optimizer",
              "bn_training_forward_rejected_single_value", "layer_replaced_after_use", "dropout_input_with_exact_zeros", "dropout_backward_at_zero_inputs", "layer_deep_copied_and_both_used"]
    RULE = ("one run = 1-3 layers (BatchNorm1d/2d, Dropout; all constructor options) with a seeded history of mode switches (direct or by "
            "propagation), forwards, backwards, buffer overwrites and faults; distinct = layer configurations x mode/forward/backward sequence; "
            "non-trivial = at least two forwards on one layer with a mode switch or a buffer update in between")
    STUB = Sim.STUB + ["np.random.rand & friends replaced by a known stream in stub-mask forwards (real seeded generator otherwise)"]

    def knobs(self, rng, tier):
        soak = rng.random() < 0.003       # one long-running program: thousands of forwards on the same few layers
        return {"max_events": rng.randint(1300, 2200) if soak else rng.randint(6, 30), "soak": soak, "n_layers": rng.randint(1, 3), "np_seed": rng.randrange(2 ** 31), "faulty": rng.random() < 0.25,
                "p_mode": rng.choice([0.15, 0.3])}

    def start(self, knobs):
        st = RunState(knobs)
        st.world = World(knobs.get("np_seed", 1))
        st.SG = st.world.SG
        st.L = {}       # lid -> dict(obj, kind, cfg, model, holder, mode)
        st.last = {}    # lid -> (x Tensor, out Tensor) of the last dropout training forward
        st.fw = {}
        return st

    # ------------------------------------------------------------------ generation
    def gen(self, rng, st):
        kn = st.knobs
        if len(st.L) < kn["n_layers"]:
            kind = rng.choice(["bn1d", "bn1d", "bn2d", "dropout", "dropout"])
            lid = len(st.L)
            if kind == "dropout":
                cfg = {"p": rng.choice([0.0, 1.0, 0.5, 0.3, 0.1, 0.8, 0.001, 0.999, 0.0015, round(rng.uniform(0.05, 0.95), 3)])}
            else:
                cfg = {"C": rng.randint(1, 4), "eps": rng.choice([1e-5, 1e-3]), "momentum": rng.choice([0.1, 0.1, None, 0.5, 1.0, round(rng.uniform(0.01, 0.99), 3)]),
                       "affine": rng.random() < 0.7, "track": rng.random() < 0.8, "f64": rng.random() < 0.4}
            return {"k": "new_layer", "lid": lid, "kind": kind, "cfg": cfg, "nest": rng.choice(["none", "seq", "box", "box2"])}
        lid = rng.choice(sorted(st.L))
        L = st.L[lid]
        r = rng.random()
        if rng.random() < 0.03 and len(st.L) < 6:
            # a snapshot of a (trained) layer is taken with copy.deepcopy (best-model copy, teacher network); both go on being used
            return {"k": "copy_layer", "lid": lid, "new": len(st.L)}
        if kn.get("soak") and L["kind"] == "dropout" and rng.random() < 0.85:
            x = small_values(rng, (8, 32), np.float32, -3, 3, avoid_zero=True)
            return {"k": "forward", "lid": lid, "x": enc(x), "stub": False, "repeat": False, "rg": False}
        if r < kn["p_mode"]:
            return {"k": "mode", "lid": lid, "v": rng.choice(["train", "eval"]), "via": "holder" if (L["holder"] is not None and rng.random() < 0.6) else "layer"}
        if L["kind"] != "dropout":
            C = L["cfg"]["C"]
            if r < kn["p_mode"] + 0.10 and L["cfg"]["track"]:
                return {"k": "set_stats", "lid": lid, "mean": enc(small_values(rng, (C,), np.float64, -2, 2)),
                        "var": enc(np.abs(small_values(rng, (C,), np.float64, -2, 2)) + 0.25), "how": rng.choice(["rebind", "in_place"])}
            if r < kn["p_mode"] + 0.18 and L["cfg"]["affine"]:
                return {"k": "set_affine", "lid": lid, "w": enc(small_values(rng, (C,), np.float64, -2, 2, avoid_zero=True)), "b": enc(small_values(rng, (C,), np.float64, -2, 2)),
                        "how": rng.choice(["rebind", "in_place", "sgd_step"])}
            if r < kn["p_mode"] + 0.22 and L["holder"] is not None and L["nest"] in ("box", "box2"):
                # the layer is replaced by a new one under the same name after the model has been used
                return {"k": "replace_layer", "lid": lid}
            if L["kind"] == "bn1d":
                shape = rng.choice([(rng.randint(2, 6), C), (rng.randint(1, 4), C, rng.randint(2, 5))])
                if rng.random() < 0.08:
                    shape = (1, C)           # one value per channel: a training forward with tracking cannot form the unbiased variance
            else:
                shape = (rng.randint(1, 3), C, rng.randint(1, 3), rng.randint(2, 3))
                if rng.random() < 0.05:
                    shape = (1, C, 1, 1)
            dt = np.float64 if L["cfg"]["f64"] else np.float32
            x = small_values(rng, shape, dt, -3, 3) + dt(rng.choice([0, 0, 1.5, -4]))
            if rng.random() < 0.12:
                x[:, rng.randrange(C)] = dt(rng.choice([0.0, 1.5, -2.0]))       # a constant feature / dead unit: batch variance exactly 0
            ev = {"k": "forward", "lid": lid, "x": enc(x), "repeat": rng.random() < 0.3,
                  "ctx": "no_grad" if rng.random() < 0.3 else "none", "rg": rng.random() < 0.3}
            if kn["faulty"] and rng.random() < 0.15:
                ev["fault"] = {"kind": rng.choice(["alloc", "interrupt", "exit"]), "at": 1}
                if rng.random() < 0.6:
                    ev["fault"].update(seam="line", at=rng.randint(1, 120))
            return ev
        # dropout
        if r > 0.95 and L["holder"] is not None and L["nest"] in ("box", "box2"):
            return {"k": "replace_layer", "lid": lid}
        if r < kn["p_mode"] + 0.15 and st.last.get(lid):
            # backward through ANY of the recent training outputs of this layer (not only the latest)
            which = rng.randrange(len(st.last[lid]))
            x, out = st.last[lid][which][:2]
            return {"k": "dropout_backward", "lid": lid, "which": which, "g": enc(small_values(rng, out.data.shape, np.float64, -2, 2, avoid_zero=True))}
        if rng.random() < 0.02:
            # rarely a HUGE sample: a drop probability that is off by a fraction of a percent (or never / always drops for extreme p)
            # only shows in millions of draws
            return {"k": "forward", "lid": lid, "huge": [2000, 2000], "stub": False, "repeat": False, "rg": False}
        big = rng.random() < 0.5
        shape = (rng.randint(3, 5), rng.randint(96, 128)) if big else rng.choice([(4,), (2, 5), (2, 3, 4)])
        x = small_values(rng, shape, np.float64 if rng.random() < 0.5 else np.float32, -3, 3, avoid_zero=True)
        if rng.random() < 0.35:
            # exact zeros in the input (post-ReLU activations, padding, one-hot features): a kept zero is still kept
            zr = np.random.RandomState(rng.randrange(2 ** 31)).rand(*shape) < rng.choice([0.3, 0.5, 0.9])
            x = np.where(zr, x.dtype.type(0), x)
        return {"k": "forward", "lid": lid, "x": enc(x), "stub": rng.random() < 0.4, "repeat": rng.random() < 0.3, "rg": rng.random() < 0.8}

    # ------------------------------------------------------------------ events
    def apply(self, st, ev):
        st.sig.append(ev["k"] + str(ev.get("v", "")))
        getattr(self, "_ev_" + ev["k"])(st, ev)

    def _ev_new_layer(self, st, ev):
        SG = st.SG
        nn = SG.nn
        cfg = ev["cfg"]
        kind = ev["kind"]
        if kind == "dropout":
            obj = nn.Dropout(cfg["p"])
            model = None
            st.probes["dropout_p0" if cfg["p"] == 0 else "dropout_p1" if cfg["p"] == 1 else "dropout_train"] += 0
        else:
            cls = nn.BatchNorm1d if kind == "bn1d" else nn.BatchNorm2d
            obj = cls(cfg["C"], eps=cfg["eps"], momentum=cfg["momentum"], affine=cfg["affine"], track_running_stats=cfg["track"],
                      dtype=np.float64 if cfg["f64"] else None)
            model = BNModel(cfg["C"], cfg["eps"], cfg["momentum"], cfg["affine"], cfg["track"])
            if cfg["momentum"] is None: st.probes["bn_momentum_none"] += 1
            if cfg["momentum"] == 1.0: st.probes["bn_momentum_1"] += 1
            if not cfg["affine"]: st.probes["bn_no_affine"] += 1
            if not cfg["track"]: st.probes["bn_no_tracking"] += 1
            if cfg["f64"]: st.probes["bn_f64"] += 1
        holder = None
        if ev["nest"] == "seq":
            holder = nn.Sequential(nn.ReLU(), obj)
        elif ev["nest"] in ("box", "box2"):
            class Box(nn.Module):
                def __init__(self):
                    super().__init__()
            holder = Box()
            if ev["nest"] == "box2":
                inner = Box()
                inner.layer = obj
                holder.inner = inner
            else:
                holder.layer = obj
        st.L[ev["lid"]] = {"obj": obj, "kind": kind, "cfg": cfg, "model": model, "holder": holder, "mode": True, "switched": False, "n_fw": 0, "nest": ev["nest"]}

    def _ev_mode(self, st, ev):
        L = st.L.get(ev["lid"])
        if L is None:
            st.skipped += 1
            return
        target = L["holder"] if (ev["via"] == "holder" and L["holder"] is not None) else L["obj"]
        if target is L["holder"]:
            st.probes["mode_by_propagation"] += 1
        st.must("C13.mode_call_raises", ev["v"] + "()", getattr(target, ev["v"]))
        new = ev["v"] == "train"
        if new and not L["mode"] and L["kind"] != "dropout":
            st.probes["bn_train_after_eval"] += 1
        if new != L["mode"]:
            L["switched"] = True
        L["mode"] = new
        if bool(L["obj"].training) != new:
            st.fail("C13.mode_not_propagated", f"after {ev['v']}() via {ev['via']}, the layer reports training={L['obj'].training}")

    def _ev_set_stats(self, st, ev):
        L = st.L.get(ev["lid"])
        if L is None or L["kind"] == "dropout" or not L["cfg"]["track"]:
            st.skipped += 1
            return
        obj, m = L["obj"], L["model"]
        dt = obj.running_mean.data.dtype
        if ev.get("how") == "in_place":
            obj.running_mean.data[...] = dec(ev["mean"]).astype(dt)
            obj.running_var.data[...] = dec(ev["var"]).astype(dt)
        else:
            obj.running_mean.data = dec(ev["mean"]).astype(dt)
            obj.running_var.data = dec(ev["var"]).astype(dt)
        m.rm = np.asarray(obj.running_mean.data, dtype=np.float64).copy()
        m.rv = np.asarray(obj.running_var.data, dtype=np.float64).copy()
        m.unknown = False
        m.nbt = int(getattr(obj, "num_batches_tracked", m.nbt) or 0)
        st.probes["stats_overwritten"] += 1
        L["switched"] = True

    def _ev_set_affine(self, st, ev):
        L = st.L.get(ev["lid"])
        if L is None or L["kind"] == "dropout" or not L["cfg"]["affine"]:
            st.skipped += 1
            return
        obj = L["obj"]
        dt = obj.weight.data.dtype
        how = ev.get("how", "rebind")
        if how == "in_place":
            obj.weight.data[...] = dec(ev["w"]).astype(dt)
            obj.bias.data[...] = dec(ev["b"]).astype(dt)
            st.probes["affine_updated_in_place"] += 1
        elif how == "sgd_step":
            # the way an optimizer changes them: gradient = (old - new), lr = 1 -> p.data -= grad, same arrays
            SG = st.SG
            for p_, new_ in ((obj.weight, dec(ev["w"]).astype(dt)), (obj.bias, dec(ev["b"]).astype(dt))):
                p_.grad = SG.Tensor((p_.data - new_).astype(dt))
            opt = SG.optim.SGD([obj.weight, obj.bias], lr=1.0)
            st.must("C13.harness_step", "SGD.step on the affine parameters", opt.step)
            opt.zero_grad()
            st.probes["affine_updated_by_optimizer"] += 1
        else:
            obj.weight.data = dec(ev["w"]).astype(dt)
            obj.bias.data = dec(ev["b"]).astype(dt)

    def _buffers(self, obj):
        rm = getattr(obj, "running_mean", None)
        rv = getattr(obj, "running_var", None)
        return (None if rm is None else rm.data.tobytes(), None if rv is None else rv.data.tobytes(), getattr(obj, "num_batches_tracked", None))

    def _ev_forward(self, st, ev):
        L = st.L.get(ev["lid"])
        if L is None:
            st.skipped += 1
            return
        if L["kind"] == "dropout":
            return self._dropout_forward(st, ev, L)
        SG = st.SG
        obj, m, cfg = L["obj"], L["model"], L["cfg"]
        x = dec(ev["x"])
        if x.ndim < 2 or x.shape[1] != cfg["C"]:
            st.skipped += 1
            return
        training = L["mode"]
        single = x.size // x.shape[1] < 2
        if single and training and cfg["track"]:
            return self._bn_single_value(st, ev, L, x)
        gamma = obj.weight.data.copy() if cfg["affine"] else None
        beta = obj.bias.data.copy() if cfg["affine"] else None
        before = self._buffers(obj)
        fault = ev.get("fault")
        xin = SG.Tensor(x.copy(), requires_grad=bool(ev.get("rg")))
        ctx = SG.sg.no_grad() if ev.get("ctx") == "no_grad" else None
        if ctx is not None:
            ctx.__enter__()
            st.probes["bn_forward_untracked"] += 1
        if fault:
            if fault.get("seam") == "line":
                SEAM.arm_spec(fault)
            else:
                SEAM.arm(fault["kind"], fault["at"], "batch_norm")
        try:
            try:
                with quiet():
                    out = obj(xin)
            finally:
                SEAM.disarm()
                if ctx is not None:
                    ctx.__exit__(None, None, None)
        except SimFault:
            SEAM.disarm()
            st.faults[f"bn_forward_{fault.get('seam', 'kernel')}_{fault['kind']}"] += 1
            if training and cfg["track"]:
                st.probes["fault_in_bn_training_forward"] += 1
                m.unknown = True
            else:
                st.probes["fault_in_bn_eval_forward"] += 1
                if self._buffers(obj)[:2] != before[:2] or (not training and self._buffers(obj)[2] != before[2]):
                    st.fail("C13.eval_changes_buffers", "a BatchNorm forward that does not update statistics was interrupted and changed a buffer")
            return
        except Exception as e:
            SEAM.disarm()
            st.fail("C13.forward_raises", f"BatchNorm forward on a {x.shape} batch raised {type(e).__name__}: {e}")
        SEAM.disarm()
        L["n_fw"] += 1
        if L["n_fw"] >= 2 and L["switched"]:
            st.nontrivial = True
        st.probes[{2: "bn_2d_input", 3: "bn_3d_input", 4: "bn_4d_input"}[x.ndim]] += 1
        if m.unknown:
            # buffers unknown after an interrupted training forward: resynchronise from the system, judge nothing this time
            if cfg["track"]:
                m.rm = np.asarray(obj.running_mean.data, dtype=np.float64).copy()
                m.rv = np.asarray(obj.running_var.data, dtype=np.float64).copy()
                m.nbt = int(obj.num_batches_tracked or 0)
            m.unknown = False
            st.notes["bn_resync_after_fault"] += 1
            return
        if not training and cfg["track"] and (np.any(m.rm != 0) or np.any(m.rv != 1)):
            st.probes["bn_eval_nontrivial_stats"] += 1
        want = m.forward(x, training, gamma, beta)
        f32 = x.dtype == np.float32
        got = np.asarray(out.data, dtype=np.float64)
        if got.shape != want.shape:
            st.fail("C13.bn_output", f"BatchNorm output shape {got.shape}, expected {want.shape}")
        tol = (2e-4 if f32 else 1e-9) * (np.abs(want) + 1.0)
        if not np.all(np.abs(got - want) <= tol):
            st.fail("C13.bn_output", f"BatchNorm output in {'training' if training else 'eval'} mode differs from the documented normalisation "
                    f"(max abs err {float(np.max(np.abs(got - want))):.3g}; momentum={cfg['momentum']}, affine={cfg['affine']}, track={cfg['track']})", cfg=cfg)
        if cfg["track"]:
            rm = np.asarray(obj.running_mean.data, dtype=np.float64)
            rv = np.asarray(obj.running_var.data, dtype=np.float64)
            t2 = (2e-5 if obj.running_mean.data.dtype == np.float32 else 1e-10)
            if rm.shape != m.rm.shape or not np.all(np.abs(rm - m.rm) <= t2 * (np.abs(m.rm) + 1)):
                st.fail("C13.running_mean", f"running_mean after a {'training' if training else 'eval'} forward is {rm.tolist()}, the documented rule gives {m.rm.tolist()} "
                        f"(momentum={cfg['momentum']}, forward #{m.nbt})", cfg=cfg)
            if rv.shape != m.rv.shape or not np.all(np.abs(rv - m.rv) <= t2 * (np.abs(m.rv) + 1)):
                st.fail("C13.running_var", f"running_var after a {'training' if training else 'eval'} forward is {rv.tolist()}, the documented rule (unbiased batch variance) gives "
                        f"{m.rv.tolist()} (momentum={cfg['momentum']}, forward #{m.nbt})", cfg=cfg)
            nbt = getattr(obj, "num_batches_tracked", None)
            if nbt is not None and int(nbt) != m.nbt:
                st.fail("C13.batch_counter", f"num_batches_tracked is {nbt} after {m.nbt} training forward(s) with tracking", cfg=cfg)
        if not training or not cfg["track"]:
            after = self._buffers(obj)
            if after != before:
                st.fail("C13.eval_changes_buffers", f"a {'training' if training else 'eval'} forward of a BatchNorm that must not update statistics changed a buffer", cfg=cfg)
            if ev.get("repeat"):
                # the repetition takes the OTHER tracking status: tracked and untracked forwards are the same function of the input
                with quiet():
                    if ev.get("ctx") == "no_grad":
                        out2 = obj(SG.Tensor(x.copy(), requires_grad=True))
                    else:
                        with SG.sg.no_grad():
                            out2 = obj(SG.Tensor(x.copy()))
                st.probes["bn_eval_repeat"] += 1
                if out2.data.tobytes() != out.data.tobytes() or self._buffers(obj) != before:
                    st.fail("C13.eval_not_deterministic", "repeating an eval-mode BatchNorm forward on the same input gave different bytes or changed a buffer")

    def _bn_single_value(self, st, ev, L, x):
        """training forward with tracking on ONE value per channel: the unbiased variance does not exist; the call is expected to be
        rejected, and a rejected call leaves the running statistics alone.  (Not asserted: the batch counter after the rejected call -
        the reference implementation also counts it; the model resynchronises the counter.)"""
        SG = st.SG
        obj, m = L["obj"], L["model"]
        before = self._buffers(obj)
        try:
            with quiet():
                obj(SG.Tensor(x.copy()))
        except SimFault:
            raise
        except Exception as e:
            st.probes["bn_training_forward_rejected_single_value"] += 1
            st.kept = getattr(st, "kept", []) + [e]
            if self._buffers(obj)[:2] != before[:2]:
                st.fail("C13.rejected_forward_changes_stats", f"a BatchNorm training forward on a {x.shape} batch was rejected ({type(e).__name__}) "
                        "but changed a running statistic: later eval forwards normalise with half-updated statistics", cfg=L["cfg"])
            m.nbt = int(getattr(obj, "num_batches_tracked", m.nbt) or 0)
            return
        # accepted: nothing is documented about the value of an unbiased variance of one sample; resynchronise
        st.notes["bn_single_value_training_forward_accepted"] += 1
        m.unknown = True

    def _ev_copy_layer(self, st, ev):
        import copy
        L = st.L.get(ev["lid"])
        if L is None or ev["new"] in st.L:
            st.skipped += 1
            return
        obj2 = st.must("C13.deepcopy_raises", "copy.deepcopy(layer)", copy.deepcopy, L["obj"])
        m2 = copy.deepcopy(L["model"])
        st.L[ev["new"]] = {"obj": obj2, "kind": L["kind"], "cfg": dict(L["cfg"]), "model": m2, "holder": None, "mode": L["mode"], "switched": L["switched"], "n_fw": 0, "nest": "none"}
        st.probes["layer_deep_copied_and_both_used"] += 1

    def _ev_replace_layer(self, st, ev):
        L = st.L.get(ev["lid"])
        if L is None or L["holder"] is None or L.get("nest") not in ("box", "box2"):
            st.skipped += 1
            return
        nn = st.SG.nn
        cfg, kind = L["cfg"], L["kind"]
        if kind == "dropout":
            new = nn.Dropout(cfg["p"])
            model = None
        else:
            cls = nn.BatchNorm1d if kind == "bn1d" else nn.BatchNorm2d
            new = cls(cfg["C"], eps=cfg["eps"], momentum=cfg["momentum"], affine=cfg["affine"], track_running_stats=cfg["track"],
                      dtype=np.float64 if cfg["f64"] else None)
            model = BNModel(cfg["C"], cfg["eps"], cfg["momentum"], cfg["affine"], cfg["track"])
        # the holder has been used before (its children were listed by a mode call)
        L["holder"].train() if L["mode"] else L["holder"].eval()
        parent = L["holder"].inner if L["nest"] == "box2" else L["holder"]
        parent.layer = new
        L["obj"], L["model"] = new, model
        L["mode"] = True             # a new layer starts in training mode, whatever its parent's mode
        st.last.pop(ev["lid"], None)
        st.probes["layer_replaced_after_use"] += 1

    def _dropout_forward(self, st, ev, L):
        SG = st.SG
        obj, p = L["obj"], L["cfg"]["p"]
        if ev.get("huge"):
            return self._dropout_huge(st, ev, L)
        x = dec(ev["x"])
        xt = SG.Tensor(x.copy(), requires_grad=bool(ev.get("rg")))
        training = L["mode"]
        stub = RngStub(perm_seed=len(st.events)) if (ev.get("stub") and training) else None
        try:
            with quiet():
                if stub is not None:
                    with stub.installed():
                        out = obj(xt)
                else:
                    out = obj(xt)
        except SimFault:
            raise
        except Exception as e:
            st.fail("C13.forward_raises", f"Dropout(p={p}) forward raised {type(e).__name__}: {e}")
        L["n_fw"] += 1
        if L["n_fw"] >= 2 and L["switched"]:
            st.nontrivial = True
        got = np.asarray(out.data, dtype=np.float64)
        xx = np.asarray(x, dtype=np.float64)
        if got.shape != xx.shape:
            st.fail("C13.dropout_shape", f"Dropout output shape {got.shape} for input {xx.shape}")
        if not training:
            st.probes["dropout_eval"] += 1
            if got.tobytes() != xx.tobytes():
                st.fail("C13.dropout_eval_identity", f"Dropout(p={p}) in eval mode changed its input")
            return
        st.probes["dropout_p0" if p == 0 else "dropout_p1" if p == 1 else "dropout_train"] += 1
        scale = 1.0 / (1.0 - p) if p < 1 else 0.0
        kept = np.abs(got - xx * scale) <= 1e-6 * np.abs(xx * scale) + 1e-12
        zero = got == 0
        if p >= 1:
            if not np.all(zero):
                st.fail("C13.dropout_mask_algebra", "Dropout(p=1) in training mode left non-zero outputs")
        elif not np.all(kept | zero):
            bad = np.argwhere(~(kept | zero))[0].tolist()
            st.fail("C13.dropout_mask_algebra", f"Dropout(p={p}) training output element {bad} = {got[tuple(bad)]!r} is neither 0 nor x/(1-p) = {float(xx[tuple(bad)] * scale)!r}", p=p)
        xnz = xx != 0                       # where the input is exactly 0 the output does not reveal the mask
        if not np.all(xnz):
            st.probes["dropout_input_with_exact_zeros"] += 1
        mask = (~zero) if p < 1 else np.zeros(xx.shape, dtype=bool)
        if p == 0 and not np.all(mask | ~xnz) and stub is None:      # (the stub stream contains u == 0.0 exactly: a boundary case, not judged)
            st.fail("C13.dropout_mask_algebra", "Dropout(p=0) zeroed an element")
        keep_full = None
        if stub is not None and any(stub.hits.values()) and stub.last_u is not None and stub.last_u.size == xx.size and 0 < p < 1:
            st.probes["dropout_stub_hit"] += 1
            u = stub.last_u.reshape(xx.shape)
            # elements with u exactly at p are boundary cases (<= vs <): not judged
            expect_keep = u > p
            judge = (np.abs(u - p) > 1e-12) & xnz
            if np.any((mask != expect_keep) & judge):
                st.fail("C13.dropout_probability", f"Dropout(p={p}): with a known uniform stream, the kept set is not {{u > p}} "
                        f"({int(np.sum((mask != expect_keep) & judge))} of {xx.size} elements differ)", p=p)
            keep_full = (expect_keep, np.abs(u - p) > 1e-12)
        elif 0 < p < 1 and int(xnz.sum()) >= 200 and stub is None:
            k = int((zero & xnz).sum())
            tail = binom_two_sided_tail(int(xnz.sum()), k, p)
            if tail < 1e-12:
                st.fail("C13.dropout_probability", f"Dropout(p={p}) zeroed {k} of {int(xnz.sum())} non-zero elements (two-sided binomial tail {tail:.2g})", p=p)
            if xx.ndim == 2 and xx.shape[1] >= 90 and 0.2 <= p <= 0.8 and np.all(xnz):
                st.probes["dropout_independence"] += 1
                rows = [mask[i].tobytes() for i in range(mask.shape[0])]
                if len(set(rows)) < len(rows):
                    st.fail("C13.dropout_independence", f"Dropout(p={p}) used the same mask for two rows of one batch")
                cols = [mask[:, j].tobytes() for j in range(mask.shape[1])]
                if len(set(cols)) == 1:
                    st.fail("C13.dropout_independence", f"Dropout(p={p}) used one mask value per row")
                prev = st.fw.get((ev["lid"], xx.shape))
                if prev is not None and prev == mask.tobytes():
                    st.fail("C13.dropout_independence", f"Dropout(p={p}) produced the same mask in two successive calls")
                st.fw[(ev["lid"], xx.shape)] = mask.tobytes()
        if stub is None and 0.05 <= p <= 0.95 and xx.size >= 128 and np.all(xnz):
            # masks of different calls are independent draws: an exact repetition of an EARLIER mask of this run (any layer) is a
            # 2^-128 event - unless the library replays a pool of random numbers
            seen = st.__dict__.setdefault("masks_seen", {})
            key = (xx.shape, mask.tobytes())
            if key in seen:
                st.fail("C13.dropout_independence", f"Dropout(p={p}): the mask of this call is identical to the mask of call #{seen[key]} of this run "
                        f"({len(seen)} training forwards so far)", p=p)
            seen[key] = len(seen)
        st.last.setdefault(ev["lid"], []).append((xt, out, keep_full))
        del st.last[ev["lid"]][:-3]
        if len(st.last[ev["lid"]]) >= 2 and st.last[ev["lid"]][-2][1].data.shape == out.data.shape:
            st.probes["dropout_two_pending_outputs_same_shape"] += 1

    def _dropout_huge(self, st, ev, L):
        SG = st.SG
        obj, p = L["obj"], L["cfg"]["p"]
        if not L["mode"]:
            st.skipped += 1
            return
        n = int(np.prod(ev["huge"]))
        x = SG.Tensor(np.ones(ev["huge"], dtype=np.float32))
        try:
            with quiet():
                out = obj(x)
        except Exception as e:
            st.fail("C13.forward_raises", f"Dropout(p={p}) forward on {ev['huge']} raised {type(e).__name__}: {e}")
        st.probes["dropout_huge_sample"] += 1
        k = int((np.asarray(out.data) == 0).sum())
        sigma = (n * p * (1 - p)) ** 0.5
        # 7.5 sigma (two-sided tail 6e-14) plus one count of slack; p = 0 and p = 1 must be exact
        if abs(k - n * p) > 7.5 * sigma + 1:
            st.fail("C13.dropout_probability", f"Dropout(p={p}) zeroed {k} of {n} elements: expected {n * p:.0f} +- {sigma:.0f} (7.5 sigma bound)", p=p)

    def _ev_dropout_backward(self, st, ev):
        SG = st.SG
        lst = st.last.get(ev["lid"]) or []
        if ev.get("which", 0) >= len(lst):
            st.skipped += 1
            return
        xt, out, keep_full = (tuple(lst.pop(ev.get("which", 0))) + (None,))[:3]
        g = dec(ev["g"])
        if not out.requires_grad or g.shape != out.data.shape:
            st.skipped += 1
            return
        xt.zero_()
        try:
            with quiet():
                out.backward(SG.Tensor(g.astype(out.data.dtype)))
        except Exception as e:
            st.fail("C13.dropout_backward", f"backward through a Dropout output raised {type(e).__name__}: {e}")
        st.probes["dropout_backward_same_mask"] += 1
        p = st.L[ev["lid"]]["cfg"]["p"]
        xx = np.asarray(xt.data, dtype=np.float64)
        nz = xx != 0
        gg = np.asarray(g.astype(out.data.dtype), dtype=np.float64)
        got = np.asarray(xt.grad.data, dtype=np.float64)
        with np.errstate(all="ignore"):
            ratio = np.where(nz, np.asarray(out.data, dtype=np.float64) / np.where(nz, xx, 1.0), 0.0)
        want = gg * ratio
        if not np.all((np.abs(got - want) <= 2e-6 * np.abs(want) + 1e-12) | ~nz):
            st.fail("C13.dropout_backward", "the input gradient of Dropout is not g * mask/(1-p) with the mask of the forward call", p=p)
        if not np.all(nz) and L_training_p(p):
            # where the input was exactly 0 the mask cannot be read off the output: every such gradient is 0 or g/(1-p); under the stub
            # stream the kept set is known exactly, under the real generator the kept fraction must be plausible for 1-p
            z = ~nz
            scale = 1.0 / (1.0 - p)
            kept = np.abs(got - gg * scale) <= 2e-6 * np.abs(gg * scale) + 1e-12
            dropped = got == 0
            if not np.all((kept | dropped) | nz):
                st.fail("C13.dropout_backward", "the input gradient of Dropout at an exactly-zero input element is neither 0 nor g/(1-p)", p=p)
            st.probes["dropout_backward_at_zero_inputs"] += 1
            if keep_full is not None:
                exp_keep, judge = keep_full
                exp_keep, judge = exp_keep.reshape(xx.shape), judge.reshape(xx.shape)
                bad = z & judge & (gg != 0) & (kept != exp_keep)
                if np.any(bad):
                    st.fail("C13.dropout_backward", f"Dropout backward does not use the mask of the forward call where the input was exactly 0 "
                            f"({int(bad.sum())} of {int(z.sum())} such elements: kept elements must pass g/(1-p), dropped ones 0)", p=p)
            else:
                m = int((z & (gg != 0)).sum())
                if m >= 60:
                    k = int((z & (gg != 0) & dropped).sum())
                    if binom_two_sided_tail(m, k, p) < 1e-12:
                        st.fail("C13.dropout_backward", f"Dropout(p={p}) backward passed a gradient at {m - k} of {m} exactly-zero input elements "
                                "(the kept fraction is not plausible for the mask of the forward call)", p=p)
