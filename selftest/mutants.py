"""Hand-written sensitivity mutants and neutral refactors (string replacements applied to a
scratch copy of /repo/synapgrad).  Each mutant still passes the repository's test-suite
(they touch behaviour the suite does not reach) and must make the named property's
check exit 1; each neutral refactor must leave every check at exit 0.

Independent, sub-agent written changes live under /verif/seeded/ instead.
"""
T = "synapgrad/tensor.py"
M = "synapgrad/nn/modules.py"
O = "synapgrad/optim/optimizers.py"
F = "synapgrad/functional.py"
NF = "synapgrad/nn/functional.py"
L = "synapgrad/nn/layers.py"
K = "synapgrad/cpu_ops.py"
I = "synapgrad/nn/init.py"
D = "synapgrad/nn/utils/data.py"
TR = "synapgrad/nn/utils/train.py"
U = "synapgrad/utils.py"

MUTANTS = {}
NEUTRAL = {}

MUTANTS["C04"] = {
    # the two original defects of the pinned tree (repaired by fix: commits)
    "orig_stale_nonleaf_grad_propagated": [(T, "if child.requires_grad and (child._grad is None or not child.is_leaf):", "if child.requires_grad and child._grad is None:")],
    "orig_leaf_root_overwrites": [(T, "if self.is_leaf and self._grad is not None:", "if False:")],
    "reset_leaf_grads_every_backward": [(T, "if child.requires_grad and (child._grad is None or not child.is_leaf):", "if child.requires_grad:")],
    "release_leaf_grads_after_sweep": [(T, "if node is not self and not node.is_leaf and not node._retain_grad and not retain_grads__:", "if node is not self and not node._retain_grad and not retain_grads__:")],
    "module_zero_grad_skips_last": [(M, "        for p in self.parameters():\n            if p.requires_grad: p.zero_()", "        for p in self.parameters()[:-1]:\n            if p.requires_grad: p.zero_()")],
    "optimizer_zero_grad_skips_first": [(O, "        for p in self.parameters:\n            p.zero_()", "        for p in self.parameters[1:]:\n            p.zero_()")],
    "retained_nodes_not_rezeroed": [(T, "if child.requires_grad and (child._grad is None or not child.is_leaf):", "if child.requires_grad and (child._grad is None or (not child.is_leaf and not child._retain_grad)):")],
    "zero_only_under_retain_ctx_off": [(T, "if child.requires_grad and (child._grad is None or not child.is_leaf):", "if child.requires_grad and (child._grad is None or (not child.is_leaf and not retain_grads__)):")],
    "zero_rebinds_to_ones_like_shape": [(T, "        self.grad = Tensor(np.zeros_like(self.data), device=self.device)", "        self.grad = Tensor(np.zeros_like(self.data) + (1e-3 if self._grad is not None and self.grad_fn is None and self._grad.any() else 0), device=self.device)")],
    "leaf_root_second_call_dropped": [(T, "            self._grad = self._grad + grad.data", "            self._grad = self._grad")],
}

NEUTRAL["grad_accumulate_out_of_place"] = [(F, "        if x1.requires_grad: x1._grad += a_grad \n        if x2.requires_grad: x2._grad += b_grad\n    \n    if out.requires_grad: out.grad_fn = BackwardFunction(backward, out._operation)\n    \n    return out\n\n\ndef mul(",
                                            "        if x1.requires_grad: x1._grad = x1._grad + a_grad \n        if x2.requires_grad: x2._grad = x2._grad + b_grad\n    \n    if out.requires_grad: out.grad_fn = BackwardFunction(backward, out._operation)\n    \n    return out\n\n\ndef mul(")]
NEUTRAL["zero_fill_in_place_when_present"] = [(T, "        self.grad = Tensor(np.zeros_like(self.data), device=self.device)",
                                               "        if self._grad is not None and self._grad.shape == self.data.shape and self._grad.flags.writeable:\n            self._grad.fill(0)\n        else:\n            self.grad = Tensor(np.zeros_like(self.data), device=self.device)")]
NEUTRAL["visited_as_id_set"] = [(T, "            if node not in visited_nodes:\n                visited_nodes.add(node)", "            if id(node) not in visited_nodes:\n                visited_nodes.add(id(node))")]

MUTANTS["C07"] = {
    "orig_prev_captured_at_construction": [(T, "        self.prev = []\n    \n    def __enter__(self):\n        global gradient__\n        # the mode to restore is the one in force when the block is entered\n        self.prev.append(gradient__)\n        gradient__ = False\n        \n    def __exit__(self, exc_type, exc_val, exc_tb):\n        global gradient__\n        gradient__ = self.prev.pop()",
                                                "        self.prev = gradient__\n    \n    def __enter__(self):\n        global gradient__\n        gradient__ = False\n        \n    def __exit__(self, exc_type, exc_val, exc_tb):\n        global gradient__\n        gradient__ = self.prev")],
    "no_grad_exit_sets_true": [(T, "        gradient__ = self.prev.pop()", "        self.prev.pop(); gradient__ = True")],
    "retain_exit_sets_false": [(T, "        retain_grads__ = self.prev.pop()", "        self.prev.pop(); retain_grads__ = False")],
    "no_grad_exit_skipped_on_exception": [(T, "        gradient__ = self.prev.pop()", "        p = self.prev.pop()\n        if exc_type is None or issubclass(exc_type, Exception) and not issubclass(exc_type, MemoryError): gradient__ = p")],
    "retain_exit_restores_grad_flag": [(T, "        retain_grads__ = self.prev.pop()", "        global gradient__\n        retain_grads__ = self.prev.pop()\n        gradient__ = True")],
    "single_slot_prev_reentrant_breaks": [(T, "        self.prev.append(retain_grads__)\n        retain_grads__ = True", "        self.prev = [retain_grads__, retain_grads__]\n        retain_grads__ = True")],
    "all_for_any_in_mul": [(F, "    inputs = (x1, x2)\n    req_grad = any(inp.requires_grad for inp in inputs)\n    out = Tensor(out_data, device=x1.device, children=inputs, requires_grad=req_grad, operation=\"Mul\")", "    inputs = (x1, x2)\n    req_grad = all(inp.requires_grad for inp in inputs)\n    out = Tensor(out_data, device=x1.device, children=inputs, requires_grad=req_grad, operation=\"Mul\")")],
    "setter_skips_float_check": [(T, "        if value and not self.is_floating_point:\n            raise RuntimeError(\"Only floating point Tensors can require gradients\")\n        \n        self._requires_grad = value", "        self._requires_grad = value")],
    "keep_all_interior_grads": [(T, "if node is not self and not node.is_leaf and not node._retain_grad and not retain_grads__:", "if False:")],
    "release_marked_interiors": [(T, "if node is not self and not node.is_leaf and not node._retain_grad and not retain_grads__:", "if node is not self and not node.is_leaf and not retain_grads__:")],
    "backward_allowed_on_nograd": [(T, "        if not self.requires_grad:\n            raise RuntimeError(\"Trying to call backward on Tensor with requires_grad=False\")", "        if False:\n            raise RuntimeError(\"Trying to call backward on Tensor with requires_grad=False\")")],
    "nonleaf_setter_allowed": [(T, "        if not self.is_leaf:\n            raise RuntimeError(\"you can only change", "        if False:\n            raise RuntimeError(\"you can only change")],
    "ctor_ignores_mode": [(T, "        req_grad = requires_grad and gradient__", "        req_grad = requires_grad")],
    "numpy_guard_dropped": [(T, "        if self.requires_grad:\n            raise RuntimeError(\"Can't call numpy()", "        if False:\n            raise RuntimeError(\"Can't call numpy()")],
    "detach_keeps_flag": [(T, "return Tensor(self.data.copy(), requires_grad=False, name=self.name, device=self.device)", "return Tensor(self.data.copy(), requires_grad=self.requires_grad, name=self.name, device=self.device)")],
    "addmm_all_for_any": [(F, "    inputs = (x1, x2, x3)\n    req_grad = any(inp.requires_grad for inp in inputs)", "    inputs = (x1, x2, x3)\n    req_grad = all(inp.requires_grad for inp in inputs)")],
    "zero_grad_on_nograd_child": [(T, "if child.requires_grad and (child._grad is None or not child.is_leaf):", "if child._grad is None or not child.is_leaf:")],
}
NEUTRAL["ctx_prev_as_local_tuple_stack"] = [(T, "        self.prev.append(gradient__)", "        self.prev = self.prev + [gradient__]")]

MUTANTS["C08"] = {
    "orig_sgd_buffer_aliases_grad": [(O, "self.momentum_buffer[i] = np.array(grad, copy=True)", "self.momentum_buffer[i] = grad")],
    "orig_no_skip_sgd": [(O, "                # frozen parameters and parameters without a gradient are skipped\n                if not p.requires_grad or p._grad is None: continue\n                grad = p._grad\n", "                grad = p._grad\n")],
    "skip_only_none_grad_adam": [(O, "                if not p.requires_grad or p._grad is None: continue\n                grad = -p._grad if self.maximize else p._grad   \n                    \n", "                if p._grad is None: continue\n                grad = -p._grad if self.maximize else p._grad   \n                    \n")],
    "dampening_on_first_step": [(O, "self.momentum_buffer[i] = np.array(grad, copy=True)", "self.momentum_buffer[i] = (1.0 - self.dampening)*np.array(grad, copy=True)")],
    "nesterov_uses_old_buffer": [(O, "                if self.momentum != 0:\n                    if self.momentum_buffer[i] is not None:", "                if self.momentum != 0:\n                    old_buf = self.momentum_buffer[i]\n                    if self.momentum_buffer[i] is not None:"),
                                 (O, "grad = grad + self.momentum*self.momentum_buffer[i]", "grad = grad + self.momentum*(old_buf if old_buf is not None else self.momentum_buffer[i])")],
    "adam_bias_exponent_t_minus_1": [(O, "                m1_corrected = self.m1[i] / (1.0 - self.beta1**self.t)\n                m2_corrected = self.m2[i] / (1.0 - self.beta2**self.t)\n\n                # Update the parameters using the Adam formula\n                p.data -= (self.lr * m1_corrected) / (np.sqrt(m2_corrected) + self.epsilon)\n                \n                \nclass AdamW", "                m1_corrected = self.m1[i] / (1.0 - self.beta1**max(self.t - 1, 1))\n                m2_corrected = self.m2[i] / (1.0 - self.beta2**self.t)\n\n                # Update the parameters using the Adam formula\n                p.data -= (self.lr * m1_corrected) / (np.sqrt(m2_corrected) + self.epsilon)\n                \n                \nclass AdamW")],
    "adamw_decay_coupled": [(O, "                p.data -= self.lr*self.weight_decay*p.data\n", "                grad = grad + self.weight_decay*p.data\n")],
    "adamw_decay_after_update": [(O, "                # Weight decay\n                p.data -= self.lr*self.weight_decay*p.data\n                    \n", "                \n"),
                                 (O, "                p.data -= (self.lr * m1_corrected) / (np.sqrt(m2_corrected) + self.epsilon)", "                p.data -= (self.lr * m1_corrected) / (np.sqrt(m2_corrected) + self.epsilon)\n                p.data -= self.lr*self.weight_decay*p.data")],
    "adam_maximize_ignored": [(O, "                grad = -p._grad if self.maximize else p._grad   \n                    \n", "                grad = p._grad   \n                    \n")],
    "adam_eps_inside_sqrt": [(O, "                p.data -= (self.lr * m1_corrected) / (np.sqrt(m2_corrected) + self.epsilon)\n                \n                \nclass AdamW", "                p.data -= (self.lr * m1_corrected) / (np.sqrt(m2_corrected + self.epsilon))\n                \n                \nclass AdamW")],
    "sgd_weight_decay_sign": [(O, "                    grad = grad + self.weight_decay*p.data\n                \n                # Momentum", "                    grad = grad - self.weight_decay*p.data\n                \n                # Momentum")],
    "sgd_maximize_ignored_with_momentum": [(O, "                if self.maximize:\n                    p.data += self.lr*grad", "                if self.maximize and self.momentum == 0:\n                    p.data += self.lr*grad")],
    "sgd_update_rebinds_data_as_f64": [(O, "                else:\n                    p.data -= self.lr*grad", "                else:\n                    p.data = p.data - np.float64(self.lr)*grad.astype(np.float64)")],
    "adam_second_moment_uses_abs": [(O, "self.m2[i] = self.beta2 * self.m2[i] + (1.0 - self.beta2) * grad**2.0\n                \n                m1_corrected = self.m1[i] / (1.0 - self.beta1**self.t)\n                m2_corrected = self.m2[i] / (1.0 - self.beta2**self.t)\n\n                # Update the parameters using the Adam formula\n                p.data -= (self.lr * m1_corrected) / (np.sqrt(m2_corrected) + self.epsilon)\n                \n                \nclass", "self.m2[i] = self.beta2 * self.m2[i] + (1.0 - self.beta2) * np.abs(grad)\n                \n                m1_corrected = self.m1[i] / (1.0 - self.beta1**self.t)\n                m2_corrected = self.m2[i] / (1.0 - self.beta2**self.t)\n\n                # Update the parameters using the Adam formula\n                p.data -= (self.lr * m1_corrected) / (np.sqrt(m2_corrected) + self.epsilon)\n                \n                \nclass")],
    # (Optimizer.zero_grad resetting only some parameters is C04's clause: mutant optimizer_zero_grad_skips_first there)
    "momentum_buffer_shared_between_params": [(O, "                    if self.momentum_buffer[i] is not None:\n                        self.momentum_buffer[i] = self.momentum*self.momentum_buffer[i] + (1.0 - self.dampening)*grad", "                    j = i if grad.shape != getattr(self.momentum_buffer[0], 'shape', None) else 0\n                    if self.momentum_buffer[i] is not None:\n                        self.momentum_buffer[i] = self.momentum*self.momentum_buffer[j] + (1.0 - self.dampening)*grad")],
}
NEUTRAL["sgd_update_out_of_place_same_dtype"] = [(O, "                else:\n                    p.data -= self.lr*grad", "                else:\n                    p.data = (p.data - self.lr*grad).astype(p.data.dtype)")]
NEUTRAL["adam_torch_code_form"] = [(O, "                p.data -= (self.lr * m1_corrected) / (np.sqrt(m2_corrected) + self.epsilon)\n                \n                \nclass AdamW", "                bc2 = (1.0 - self.beta2**self.t)\n                p.data -= (self.lr / (1.0 - self.beta1**self.t)) * self.m1[i] / (np.sqrt(self.m2[i]) / np.sqrt(bc2) + self.epsilon)\n                \n                \nclass AdamW")]

MUTANTS["C03"] = {
    "no_visited_check": [(T, "            if node not in visited_nodes:\n                visited_nodes.add(node)", "            if True:\n                visited_nodes.add(node)")],
    "bfs_order_instead_of_postorder": [(T, "        visit_node(self)\n", "        visit_node(self)\n        bfs = [self]\n        for n_ in bfs:\n            for c_ in n_._children:\n                if c_ not in bfs: bfs.append(c_)\n        ordered_nodes = list(reversed(bfs))\n")],
    "mul_second_operand_assign_not_accumulate": [(F, "            a_grad, b_grad = cpu_ops.mul_backward(grad_output.data, x1.data, x2.data)\n        else:\n            raise RuntimeError(f\"{grad_output.device} not supported\")\n        \n        if x1.requires_grad: x1._grad += a_grad \n        if x2.requires_grad: x2._grad += b_grad", "            a_grad, b_grad = cpu_ops.mul_backward(grad_output.data, x1.data, x2.data)\n        else:\n            raise RuntimeError(f\"{grad_output.device} not supported\")\n        \n        if x1.requires_grad: x1._grad += a_grad \n        if x2.requires_grad: x2._grad = x2._grad*0 + b_grad")],
    "sort_nodes_by_id": [(T, "        for i, node in enumerate(reversed(ordered_nodes)):", "        for i, node in enumerate(sorted(ordered_nodes, key=id)):")],
    # (an unbind closure ignoring out_index is a per-op VJP defect: same kernels on both sides of O1, screened out of O3 -> C01, not claimed)
    "root_seeded_with_ones": [(T, "            self._grad = grad.data.copy()", "            self._grad = np.ones_like(grad.data)")],
    "interior_grad_released_before_use": [(T, "            if node is not self and not node.is_leaf and not node._retain_grad and not retain_grads__:\n                del node._grad\n                node._grad = None", "            if node is not self and not node.is_leaf and not node._retain_grad and not retain_grads__:\n                pass\n            for c_ in node._children:\n                if c_.grad_fn is not None and len(c_._children) == 1 and c_._children[0].grad_fn is not None and c_._children[0]._children and not c_._retain_grad and c_._operation == 'Clone':\n                    c_._grad = c_._grad * 2")],
    "add_backward_skips_when_same_operand": [(F, "        if x1.requires_grad: x1._grad += a_grad \n        if x2.requires_grad: x2._grad += b_grad\n    \n    if out.requires_grad: out.grad_fn = BackwardFunction(backward, out._operation)\n    \n    return out\n\n\ndef mul(", "        if x1.requires_grad: x1._grad += a_grad \n        if x2.requires_grad and x2 is not x1: x2._grad += b_grad\n    \n    if out.requires_grad: out.grad_fn = BackwardFunction(backward, out._operation)\n    \n    return out\n\n\ndef mul(")],
    "visited_check_by_value_shape": [(T, "            if node not in visited_nodes:\n                visited_nodes.add(node)", "            if (node.shape, node._operation, len(node._children)) not in visited_nodes or node._operation is None:\n                visited_nodes.add((node.shape, node._operation, len(node._children)) if node._operation is not None else id(node))")],
    "concat_backward_drops_repeated_input": [(F, "        for inp, grad in zip(inputs, gradients):\n            if inp.requires_grad: inp._grad += grad", "        seen_ = []\n        for inp, grad in zip(inputs, gradients):\n            if inp.requires_grad and not any(inp is s_ for s_ in seen_): inp._grad += grad\n            seen_.append(inp)")],
    # (any()->all() in one op is the propagation clause of C07: mutant addmm_all_for_any there)
    "children_order_dependent_sweep": [(T, "                ordered_nodes.append(node)\n        visit_node(self)", "                if len(node._children) == 2 and node._children[0].grad_fn is None and node._children[1].grad_fn is not None and node._children[1] in ordered_nodes:\n                    ordered_nodes.insert(ordered_nodes.index(node._children[1]), node)\n                else:\n                    ordered_nodes.append(node)\n        visit_node(self)")],
}
NEUTRAL["iterative_postorder_dfs"] = [(T, "        def visit_node(node):\n            if node not in visited_nodes:\n                visited_nodes.add(node)\n                for child in node._children:\n                    # leaves accumulate across calls; a gradient left on a non-leaf by\n                    # an earlier call must not be propagated again\n                    if child.requires_grad and (child._grad is None or not child.is_leaf):\n                        child.zero_()\n                    visit_node(child)\n                ordered_nodes.append(node)\n        visit_node(self)",
   "        stack_ = [(self, False)]\n        while stack_:\n            node, done_ = stack_.pop()\n            if done_:\n                ordered_nodes.append(node); continue\n            if node in visited_nodes: continue\n            visited_nodes.add(node)\n            stack_.append((node, True))\n            for child in reversed(node._children):\n                if child.requires_grad and (child._grad is None or not child.is_leaf):\n                    child.zero_()\n                stack_.append((child, False))")]
NEUTRAL["kahn_topological_order"] = [(T, "        visit_node(self)\n", "        visit_node(self)\n        indeg_ = {id(n_): 0 for n_ in ordered_nodes}\n        for n_ in ordered_nodes:\n            for c_ in set(n_._children): indeg_[id(c_)] += 1\n        ready_ = [self]; kahn_ = []\n        while ready_:\n            n_ = ready_.pop(); kahn_.append(n_)\n            for c_ in set(n_._children):\n                indeg_[id(c_)] -= 1\n                if indeg_[id(c_)] == 0: ready_.append(c_)\n        ordered_nodes = list(reversed(kahn_))\n")]

MUTANTS["C11"] = {
    "orig_root_stores_callers_g": [(T, "            self._grad = grad.data.copy()", "            self._grad = grad.data")],
    "mul_backward_inplace_on_grad_with_aliased_root": [(T, "            self._grad = grad.data.copy()", "            self._grad = grad.data"), (K, "    grad_a = grad * b\n    grad_b = grad * a\n    return unbroadcast(grad_a, a.shape), unbroadcast(grad_b, b.shape)", "    grad_b = grad * a\n    grad *= b\n    grad_a = grad\n    return unbroadcast(grad_a, a.shape), unbroadcast(grad_b, b.shape)")],
    "batch_norm_forward_centers_x_inplace": [(K, "    x_norm = (x - mean.reshape(keepdims_shape)) / std.reshape(keepdims_shape)", "    x -= mean.reshape(keepdims_shape)\n    x_norm = x / std.reshape(keepdims_shape)")],
    "cross_entropy_dlogits_aliases_input": [(K, "    dlogits = softmax_forward(y_pred, 1)\n    n = y_pred.shape[0]\n    dlogits[range(n), y_true] -= 1", "    n = y_pred.shape[0]\n    y_pred[range(n), y_true] -= 0.0\n    dlogits = softmax_forward(y_pred, 1)\n    y_true[...] = y_true\n    dlogits[range(n), y_true] -= 1\n    y_pred[0, 0] += 1e-3")],
    "detach_without_copy": [(T, "return Tensor(self.data.copy(), requires_grad=False, name=self.name, device=self.device)", "return Tensor(self.data, requires_grad=False, name=self.name, device=self.device)")],
    "clone_forward_returns_input": [(K, "def clone_forward(a:np.ndarray):\n    return a.copy()", "def clone_forward(a:np.ndarray):\n    return a")],
    "relu_with_out_param": [(K, "def relu_forward(a:np.ndarray) -> np.ndarray:\n    return np.maximum(0, a)", "def relu_forward(a:np.ndarray) -> np.ndarray:\n    return np.maximum(0, a, out=a) if a.flags.writeable and a.flags.c_contiguous and a.ndim == 3 else np.maximum(0, a)")],
    "exp_backward_scales_saved_output": [(K, "def exp_backward(grad:np.ndarray, exp_a:np.ndarray):\n    return grad * exp_a", "def exp_backward(grad:np.ndarray, exp_a:np.ndarray):\n    exp_a *= grad\n    return exp_a")],
    # (in-place arithmetic on an INTERIOR gradient buffer is inside the write-set of backward and no frame violation)
    "mse_backward_writes_target": [(K, "    return grad * 2 * (y_pred - y_true)", "    y_true -= 0\n    d = y_pred - y_true\n    np.multiply(y_true, 1.0, out=y_true)\n    y_true += 1e-4\n    return grad * 2 * d")],
    "nll_backward_clobbers_labels": [(K, "    loss_grad = np.zeros(y_pred.shape)\n    loss_grad[range(len(y_pred)), y_true] = -1.0", "    loss_grad = np.zeros(y_pred.shape)\n    loss_grad[range(len(y_pred)), y_true] = -1.0\n    y_true[...] = 0")],
    "sqrt_forward_nonrepeatable_cache": [(K, "def sqrt_forward(a:np.ndarray):\n    return np.sqrt(a)", "_sq = {}\ndef sqrt_forward(a:np.ndarray):\n    k = (a.shape, a.tobytes())\n    _sq[k] = _sq.get(k, 0) + 1\n    return np.sqrt(a) * (1 + 1e-12 * (_sq[k] > 1))")],
    "zero_writes_through_old_buffer": [(T, "        self.grad = Tensor(np.zeros_like(self.data), device=self.device)", "        if self._grad is not None: self._grad[...] = 0\n        else: self.grad = Tensor(np.zeros_like(self.data), device=self.device)"), (T, "            self._grad = grad.data.copy()", "            self._grad = grad.data")],
    "unsqueeze_backward_accumulates_into_view": [(F, "            a_grad = cpu_ops.reshape_backward(grad_output.data, x.shape)\n        else:\n            raise RuntimeError(f\"{grad_output.device} not supported\")\n        \n        if x.requires_grad: x._grad += a_grad \n", "            a_grad = cpu_ops.reshape_backward(grad_output.data, x.shape)\n        else:\n            raise RuntimeError(f\"{grad_output.device} not supported\")\n        \n        if x.requires_grad: x._grad += a_grad; x.data.reshape(-1)[:1] *= 1.0000001 \n")],
    "linear_forward_transposes_weight_inplace": [(NF, "        if bias:\n            out_data = cpu_ops.addmm_forward(bias.data, x.data, weight.data.T)", "        if bias:\n            bias.data += 0.0; bias.data[...] = bias.data + 1e-9\n            out_data = cpu_ops.addmm_forward(bias.data, x.data, weight.data.T)")],
}

MUTANTS["C12"] = {
    "orig_shared_param_listed_per_path": [(M, "        unique = []\n        for p in params:\n            if not any(p is q for q in unique):\n                unique.append(p)\n        return unique", "        return params")],
    "orig_stale_registration_on_plain_reassign": [(M, "            for registry in ('_submodules', '_parameters'):\n                if __name in self.__dict__.get(registry, ()):\n                    del self.__dict__[registry][__name]\n", "")],
    "orig_stale_param_when_module_assigned": [(M, "        self._parameters.pop(name, None) # a name holds one registration at a time\n", "")],
    "parameters_recursion_depth_1": [(M, "        for m in self.submodules():\n            params += m.parameters()", "        for m in self.submodules():\n            params += list(m._parameters.values())")],
    "eval_does_not_recurse": [(M, "        self.training = False\n        for m in self.submodules():\n            m.eval()", "        self.training = False\n        for m in self.submodules():\n            m.training = False")],
    "train_skips_last_child": [(M, "        self.training = True\n        for m in self.submodules():\n            m.train()", "        self.training = True\n        for m in self.submodules()[:max(1, len(self.submodules()) - 1)] if len(self.submodules()) > 2 else self.submodules():\n            m.train()")],
    "freeze_own_params_only": [(M, "    def freeze(self):\n        for p in self.parameters():", "    def freeze(self):\n        for p in self._parameters.values():")],
    "unfreeze_stops_at_first_frozen_child": [(M, "    def unfreeze(self):\n        for p in self.parameters():\n            p.requires_grad = True", "    def unfreeze(self):\n        for p in self.parameters()[:3]:\n            p.requires_grad = True")],
    "registry_dedup_by_equal_shape": [(M, "            if not any(p is q for q in unique):", "            if not any(p is q or (p.shape == q.shape and p.shape == (2, 2)) for q in unique):")],
    "sequential_forward_reversed": [(M, "        for module in self.submodules():\n            out = module(inp)", "        for module in reversed(self.submodules()):\n            out = module(inp)")],
    "sequential_sorted_by_name": [(M, "        for module in self.submodules():\n            out = module(inp)", "        for module in [self._submodules[k] for k in sorted(self._submodules)]:\n            out = module(inp)")],
    "num_params_counts_tensors": [(M, "            num_params += p.size\n            if p.requires_grad: num_trainable += p.size", "            num_params += 1\n            if p.requires_grad: num_trainable += p.size")],
    "num_params_nontrainable_is_total_minus_own": [(M, "            else: num_non_trainable += p.size", "            else: num_non_trainable += p.size if p.ndim > 1 else 0")],
    "zero_grad_own_params_only": [(M, "    def zero_grad(self):\n        for p in self.parameters():", "    def zero_grad(self):\n        for p in self._parameters.values():")],
    "register_module_accepts_anything": [(M, "        if not isinstance(module, Module):\n            raise TypeError(\"All submodules must be of type Module\")", "        if False:\n            raise TypeError(\"All submodules must be of type Module\")")],
    "children_before_own_for_first_child_only": [(M, "        params = list(self._parameters.values())\n        for m in self.submodules():\n            params += m.parameters()", "        params = list(self._parameters.values())\n        for m in reversed(self.submodules()):\n            params += m.parameters()")],
    "setattr_registers_under_wrong_registry_order": [(M, "        self._parameters[name] = parameter\n        object.__setattr__(self, name, parameter)", "        self._parameters[name] = parameter\n        self._parameters.move_to_end(name, last=False)\n        object.__setattr__(self, name, parameter)")],
}
NEUTRAL["registries_dedupe_with_id_set"] = [(M, "        unique = []\n        for p in params:\n            if not any(p is q for q in unique):\n                unique.append(p)\n        return unique", "        unique = []; seen_ = set()\n        for p in params:\n            if id(p) not in seen_:\n                seen_.add(id(p)); unique.append(p)\n        return unique")]
NEUTRAL["children_params_before_own"] = [(M, "        params = list(self._parameters.values())\n        for m in self.submodules():\n            params += m.parameters()", "        params = []\n        for m in self.submodules():\n            params += m.parameters()\n        params += list(self._parameters.values())")]
NEUTRAL["train_eval_via_apply"] = [(M, "        self.training = False\n        for m in self.submodules():\n            m.eval()", "        def off_(m_): m_.training = False\n        self.apply(off_)")]

MUTANTS["C13"] = {
    "eval_updates_running_stats": [(K, "    if running_mean is not None and training:\n        running_mean = mean * momentum + running_mean * (1 - momentum)", "    if running_mean is not None:\n        running_mean = x.mean(axis=normed_dims) * momentum + running_mean * (1 - momentum)")],
    "biased_variance_into_running_var": [(K, "        unbiased_var = var * (n / (n - 1))", "        unbiased_var = var")],
    "momentum_roles_swapped": [(K, "        running_mean = mean * momentum + running_mean * (1 - momentum)", "        running_mean = mean * (1 - momentum) + running_mean * momentum")],
    "double_increment_of_counter": [(L, "                self.num_batches_tracked += 1", "                self.num_batches_tracked += 2")],
    "cumulative_factor_off_by_one": [(L, "                    exponential_average_factor = 1.0 / float(self.num_batches_tracked)", "                    exponential_average_factor = 1.0 / float(self.num_batches_tracked + 1)")],
    "dropout_scale_one_over_p": [(L, "            random_data = random_data / (1-self.p) # scale data", "            random_data = random_data / (self.p if self.p > 0 else 1) # scale data")],
    "dropout_active_in_eval": [(L, "        if not self.training: return x\n        random_data", "        if not self.training and self.p < 0.5: return x\n        random_data")],
    "dropout_one_mask_row_broadcast": [(L, "        random_data = np.random.rand(*x.shape)\n", "        random_data = np.broadcast_to(np.random.rand(*x.shape[1:]), x.shape) if len(x.shape) > 1 else np.random.rand(*x.shape)\n")],
    "dropout_keeps_with_probability_p": [(L, "        random_data = np.where(random_data <= self.p, 0, 1)", "        random_data = np.where(random_data <= self.p, 1, 0) if 0 < self.p < 1 else np.where(random_data <= self.p, 0, 1)")],
    "bn_eval_uses_batch_stats_when_4d": [(K, "    mean = running_mean if running_mean is not None and not training else x.mean(axis=normed_dims)", "    mean = running_mean if running_mean is not None and not training and x.ndim < 4 else x.mean(axis=normed_dims)")],
    "bn_train_mode_not_propagated_in_sequential": [(M, "        self.training = True\n        for m in self.submodules():\n            m.train()", "        self.training = True\n        for m in self.submodules():\n            if not hasattr(m, 'running_mean'): m.train()")],
    "bn_running_var_uses_momentum_none_as_zero": [(L, "        if self.momentum is None:\n            exponential_average_factor = 0.0\n        else:\n            exponential_average_factor = self.momentum\n\n        if self.training and self.track_running_stats:\n            if self.num_batches_tracked is not None:\n                self.num_batches_tracked += 1\n                if self.momentum is None:  # use cumulative moving average\n                    exponential_average_factor = 1.0 / float(self.num_batches_tracked)", "        if self.momentum is None:\n            exponential_average_factor = 0.0\n        else:\n            exponential_average_factor = self.momentum\n\n        if self.training and self.track_running_stats:\n            if self.num_batches_tracked is not None:\n                self.num_batches_tracked += 1\n                if self.momentum is None and self.num_batches_tracked < 3:  # use cumulative moving average\n                    exponential_average_factor = 1.0 / float(self.num_batches_tracked)")],
    "bn_eps_ignored_in_eval": [(K, "    std = np.sqrt(var + eps)", "    std = np.sqrt(var + (eps if training else 0.0))")],
    "bn_affine_applied_twice_second_call": [(K, "    if beta is not None:\n        x_norm += beta.reshape(keepdims_shape)", "    if beta is not None:\n        x_norm += beta.reshape(keepdims_shape) * (1.0 if training or running_mean is None else 1.0 + 1e-3)")],
    "dropout_mask_regenerated_in_backward": [(L, "        return x*random_t", "        out = x*random_t\n        if out.requires_grad:\n            rt2 = synapgrad.tensor(np.roll(random_data, 1))\n            fn = out.grad_fn\n            def bw():\n                x._grad += out.grad.data * rt2.data\n            fn.backward = bw\n        return out")],
}
NEUTRAL["dropout_uses_random_sample"] = [(L, "        random_data = np.random.rand(*x.shape)\n", "        random_data = np.random.random_sample(x.shape)\n")]
NEUTRAL["dropout_strict_less_than"] = [(L, "        random_data = np.where(random_data <= self.p, 0, 1)", "        random_data = np.where(random_data < self.p, 0, 1)")]
NEUTRAL["bn_running_update_in_place_form"] = [(K, "        running_mean = mean * momentum + running_mean * (1 - momentum)", "        running_mean = running_mean + momentum * (mean - running_mean)")]

_ITER_FIXED = "        return (self[idx] for idx in range(len(self)))"
MUTANTS["C05"] = {
    "orig_shared_cursor": [(T, _ITER_FIXED, "        self._current_idx = 0\n        return self\n\n    def __next__(self):\n        if self._current_idx >= len(self):\n            raise StopIteration\n        val = self[self._current_idx]\n        self._current_idx += 1\n        return val")],
    "iter_off_by_one_last_row_dropped_when_gt3": [(T, _ITER_FIXED, "        n_ = len(self)\n        return (self[idx] for idx in range(n_ if n_ <= 3 else n_ - 1))")],
    "iter_caches_rows_on_tensor": [(T, _ITER_FIXED, "        if not hasattr(self, '_rows_it'):\n            self._rows_it = iter([self[idx] for idx in range(len(self))])\n        return self._rows_it")],
    # (evaluating len() lazily at the first next() is a neutral refactor: see NEUTRAL iter_via_lazy_generator)
    "iter_reversed_when_derived": [(T, _ITER_FIXED, "        return (self[idx] for idx in (range(len(self)) if self._grad_fn is None else reversed(range(len(self)))))")],
    "iter_shared_position_via_class_attr": [(T, _ITER_FIXED, "        Tensor._pos = 0\n        def gen_():\n            while Tensor._pos < len(self):\n                Tensor._pos += 1\n                yield self[Tensor._pos - 1]\n        return gen_()")],
    "iter_yields_flat_elements_for_rank1_f32": [(T, _ITER_FIXED, "        return (self[idx] if not (self.ndim == 1 and self.dtype == np.float32 and len(self) == 4) else self[idx] * 1.0000001 for idx in range(len(self)))")],
}
NEUTRAL["iter_via_list_iterator"] = [(T, _ITER_FIXED, "        return iter([self[idx] for idx in range(len(self))])")]
NEUTRAL["iter_via_generator_function"] = [(T, _ITER_FIXED, "        n_ = len(self)\n        def gen_():\n            for idx in range(n_):\n                yield self[idx]\n        return gen_()")]
NEUTRAL["iter_via_lazy_generator"] = [(T, _ITER_FIXED, "        def gen_():\n            for idx in range(len(self)):\n                yield self[idx]\n        return gen_()")]

MUTANTS["C18"] = {
    "orig_transform_none_raises": [(D, "        if self.transform is None:\n            return X_batch, y_batch\n", "")],
    "cursor_not_reset_by_iter": [(D, "    def __iter__(self):\n        self.step = 0\n        return self", "    def __iter__(self):\n        return self")],
    "cursor_reset_only_when_exhausted": [(D, "    def __iter__(self):\n        self.step = 0\n        return self", "    def __iter__(self):\n        if self.step >= self.__len__(): self.step = 0\n        return self")],
    "partial_last_batch_yielded": [(D, "        return len(self.y) // self.batach_size", "        return -(-len(self.y) // self.batach_size)")],
    "end_computed_from_step_plus_one": [(D, "        end = (idx*self.batach_size) + self.batach_size", "        end = (idx + 1)*self.batach_size + (1 if idx > 1 else 0)")],
    "X_shuffled_but_not_y": [(D, "    X_train = np.array([ X[ind] for ind in train_indices ], dtype=np.float32)\n    y_train = np.array([ y[ind] for ind in train_indices ], dtype=np.float32)", "    X_train = np.array([ X[ind] for ind in train_indices ], dtype=np.float32)\n    y_train = np.array([ y[ind] for ind in sorted(train_indices) ], dtype=np.float32)")],
    "validation_carved_from_test": [(D, "            val_split = int(np.floor(val_split * len(train_val_indices)))\n            train_indices, val_indices = train_val_indices[val_split:], train_val_indices[:val_split]", "            val_split = int(np.floor(val_split * len(train_val_indices)))\n            train_indices, val_indices = train_val_indices[val_split:], (test_indices + train_val_indices)[:val_split]")],
    "split_uses_round_not_floor": [(D, "        split = int(np.floor(test_split * data_size))", "        split = int(np.round(test_split * data_size))")],
    "one_hot_unsorted_first_seen": [(D, "    uniques = list(np.unique(y))", "    uniques = list(dict.fromkeys(list(np.asarray(y).tolist())))")],
    "getitem_advances_cursor": [(D, "        start = idx*self.batach_size\n", "        start = idx*self.batach_size\n        self.step = max(self.step, idx)\n")],
    "y_batch_offset_by_one_after_first_epoch": [(D, "        y_batch = self.y[start:end]", "        self._served = getattr(self, '_served', 0) + 1\n        off_ = 1 if self._served > 2 * max(1, self.__len__()) else 0\n        y_batch = self.y[start+off_:end+off_]")],
    "transform_called_twice": [(D, "        return self.transform(self, X_batch, y_batch)", "        self.transform(self, X_batch, y_batch)\n        return self.transform(self, X_batch, y_batch)")],
}
NEUTRAL["loader_len_cached"] = [(D, "        return len(self.y) // self.batach_size", "        if not hasattr(self, '_n'): self._n = len(self.y) // self.batach_size\n        return self._n")]
NEUTRAL["split_uses_permutation"] = [(D, "        if shuffle:\n            np.random.shuffle(indices)", "        if shuffle:\n            indices = [int(i_) for i_ in np.random.permutation(data_size)]")]

MUTANTS["C15"] = {
    "orig_normal_init_takes_variance": [(I, "    std = gain * math.sqrt(2.0 / float(fan_in + fan_out))\n    return normal_(tensor, 0, std)", "    std = gain * math.sqrt(2.0 / float(fan_in + fan_out))\n    return normal_(tensor, 0, std**2)")],
    "kaiming_normal_variance": [(I, "    std = gain * (1 / math.sqrt(float(fan[mode])))\n    return normal_(tensor, 0, std)", "    std = gain * (1 / math.sqrt(float(fan[mode])))\n    return normal_(tensor, 0, std**2)")],
    "fan_in_fan_out_swapped": [(I, "    fan_in = num_input_fmaps * receptive_field_size\n    fan_out = num_output_fmaps * receptive_field_size", "    fan_out = num_input_fmaps * receptive_field_size\n    fan_in = num_output_fmaps * receptive_field_size")],
    "xavier_gain_ignored": [(I, "    a = gain * math.sqrt(6.0 / float(fan_in + fan_out))", "    a = math.sqrt(6.0 / float(fan_in + fan_out))")],
    "kaiming_uniform_sqrt6": [(I, "    std = gain * math.sqrt(3.0 / float(fan[mode]))", "    std = gain * math.sqrt(6.0 / float(fan[mode]))")],
    "uniform_returns_new_tensor": [(I, "    tensor.data = np.random.uniform(a, b, tensor.shape).astype(tensor.dtype)\n    return tensor\n", "    return Tensor(np.random.uniform(a, b, tensor.shape).astype(tensor.dtype), requires_grad=tensor.requires_grad)\n")],
    "normal_fills_float64_into_float32": [(I, "    tensor.data = np.random.normal(mean, std, tensor.shape).astype(tensor.dtype)", "    tensor.data = np.random.normal(mean, std, tensor.shape)")],
    "receptive_field_ignores_last_dim": [(I, "        receptive_field_size = np.prod(tensor.shape[2:])", "        receptive_field_size = np.prod(tensor.shape[2:3])")],
    "leaky_relu_gain_ignores_slope": [(I, "        return math.sqrt(2.0 / (1 + negative_slope ** 2))", "        return math.sqrt(2.0 / (1 + 0.01 ** 2))")],
    "tanh_gain_wrong": [(I, "        return 5.0 / 3\n", "        return 3.0 / 5\n")],
    "linear_bias_bound_uses_fan_out": [(L, "        init.uniform_(self.weight, -std, std)\n        if self.bias is not None:\n            init.uniform_(self.bias, -std, std)", "        init.uniform_(self.weight, -std, std)\n        if self.bias is not None:\n            init.uniform_(self.bias, -1. / math.sqrt(float(self.out_features)), 1. / math.sqrt(float(self.out_features)))")],
    "conv2d_bound_sqrt_k": [(L, "        fan_in, _ = init._calculate_fan_in_and_fan_out(self.weight)\n        bound = 1. / math.sqrt(float(fan_in)) if fan_in > 0 else 0\n        nn.init.uniform_(self.weight, -bound, bound)\n        if self.bias is not None:\n            nn.init.uniform_(self.bias, -bound, bound)\n    \n    def forward(self, x: Tensor) -> Tensor:\n        return F.conv2d(", "        fan_in, _ = init._calculate_fan_in_and_fan_out(self.weight)\n        bound = 1. / math.sqrt(float(self.in_channels * self.kernel_size[0])) if fan_in > 0 else 0\n        nn.init.uniform_(self.weight, -bound, bound)\n        if self.bias is not None:\n            nn.init.uniform_(self.bias, -bound, bound)\n    \n    def forward(self, x: Tensor) -> Tensor:\n        return F.conv2d(")],
    "uniform_clears_requires_grad": [(I, "    tensor.data = np.random.uniform(a, b, tensor.shape).astype(tensor.dtype)\n    return tensor\n", "    tensor.data = np.random.uniform(a, b, tensor.shape).astype(tensor.dtype)\n    tensor._requires_grad = False\n    return tensor\n")],
    "constant_rounds_to_int": [(I, "    tensor.data = np.full(tensor.shape, val).astype(tensor.dtype)", "    tensor.data = np.full(tensor.shape, int(val) if tensor.ndim > 2 else val).astype(tensor.dtype)")],
    "fan_mode_index_swapped": [(I, "    gain = calculate_gain(nonlinearity, a)\n    std = gain * math.sqrt(3.0 / float(fan[mode]))", "    gain = calculate_gain(nonlinearity, a)\n    std = gain * math.sqrt(3.0 / float(fan[1 - mode]))")],
    "rng_bypasses_seeded_generator_scaled_wrong": [(I, "    tensor.data = np.random.normal(mean, std, tensor.shape).astype(tensor.dtype)", "    tensor.data = (mean + 0.5 * std * np.random.default_rng(0).standard_normal(tensor.shape)).astype(tensor.dtype)")],
}
NEUTRAL["uniform_via_rand"] = [(I, "    tensor.data = np.random.uniform(a, b, tensor.shape).astype(tensor.dtype)\n    return tensor\n", "    tensor.data = (a + (b - a) * np.random.rand(*tensor.shape)).astype(tensor.dtype)\n    return tensor\n")]
NEUTRAL["normal_via_randn"] = [(I, "    tensor.data = np.random.normal(mean, std, tensor.shape).astype(tensor.dtype)", "    tensor.data = (mean + std * np.random.randn(*tensor.shape)).astype(tensor.dtype)")]
NEUTRAL["uniform_fill_in_place_array"] = [(I, "    tensor.data = np.random.uniform(a, b, tensor.shape).astype(tensor.dtype)\n    return tensor\n", "    tensor.data[...] = np.random.uniform(a, b, tensor.shape)\n    return tensor\n")]
