"""Soundness of the line-level fault seam: an exception injected by the simulator must behave like an exception raised by the code at that
point.  For a set of code patterns (with blocks, try/finally, loops, comprehensions, generator expressions, nested blocks) every crash point
the seam admits is tried in turn; after each, the enclosing with / finally must have restored the state.  Crash points the seam excludes
(with and try header lines, finally bodies, lines holding inlined comprehensions, __enter__/__exit__, bare-except bodies) are listed with the
reason they are excluded: at those, a trace-function exception is NOT equivalent to a real one (measured here on this interpreter).

usage: selftest/lineseam.py      exit 0 iff every admitted crash point restores the state in every pattern"""
import os, sys, tempfile, textwrap, importlib.util

HERE = os.path.dirname(os.path.abspath(__file__))
sys.path.insert(0, os.path.dirname(HERE))

PATTERNS = textwrap.dedent('''
    mode = True
    class CM:
        def __enter__(self):
            global mode
            mode = False
        def __exit__(self, *a):
            global mode
            mode = True
    class P:
        def numpy(self): return 1
    def f_comp(loader):
        out = []
        with CM():
            for a, b in loader:
                out.extend([p.numpy() for p in b])
        return out
    def f_tryfin(loader):
        global mode
        mode = False
        try:
            for a, b in loader:
                z = [p.numpy() for p in b]
                w = a + 1
        finally:
            mode = True
    def f_plainfor(loader):
        out = []
        with CM():
            for a, b in loader:
                for p in b:
                    out.append(p.numpy())
                q = a + 1
        return out
    def f_genexp(loader):
        with CM():
            for a, b in loader:
                s = sum(p.numpy() for p in b)
    def f_dictcomp(loader):
        with CM():
            for a, b in loader:
                s = {i: p.numpy() for i, p in enumerate(b)}
    def f_while(loader):
        with CM():
            i = 0
            while i < 3:
                i += 1
            x = i if i else 0
    def f_nested(loader):
        with CM():
            with CM():
                y = 1
            z = 2
            try:
                z += 1
            except ValueError:
                z = 0
    def f_bare(loader):
        with CM():
            try:
                q = [1][0]
            except:
                raise RuntimeError("replaced")
    NAMES = ["f_comp", "f_tryfin", "f_plainfor", "f_genexp", "f_dictcomp", "f_while", "f_nested", "f_bare"]
''')


def main():
    d = tempfile.mkdtemp(prefix="vline_", dir="/tmp")
    pkg = os.path.join(d, "synapgrad")
    os.makedirs(pkg)
    open(os.path.join(pkg, "__init__.py"), "w").write("")
    open(os.path.join(pkg, "patterns.py"), "w").write(PATTERNS)
    os.environ["VERIF_REPO"] = d
    sys.path.insert(0, d)
    from simkit import env
    env.REPO = d
    from simkit.world import LINES, SimFault
    spec = importlib.util.spec_from_file_location("synapgrad.patterns", os.path.join(pkg, "patterns.py"))
    m = importlib.util.module_from_spec(spec)
    spec.loader.exec_module(m)
    data = lambda: [(1, [m.P(), m.P()]), (2, [m.P()])]
    bad = 0
    for name in m.NAMES:
        fn = getattr(m, name)
        LINES.arm("interrupt", 10 ** 9)
        try:
            fn(data())
        except RuntimeError:
            pass
        n = LINES.disarm()
        unrestored = []
        for k in range(1, n + 1):
            m.mode = True
            LINES.arm("interrupt", k)
            try:
                fn(data())
            except SimFault:
                pass
            except RuntimeError:
                pass
            LINES.disarm()
            if not m.mode:
                unrestored.append((k, LINES.where))
        print(f"{'ok  ' if not unrestored else 'FAIL'} {name}: {n} admitted crash points, state not restored after: {unrestored}")
        bad += bool(unrestored)
    import shutil
    shutil.rmtree(d, ignore_errors=True)
    return 1 if bad else 0


if __name__ == "__main__":
    sys.exit(main())
