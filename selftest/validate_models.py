"""Validate the reference models against independent executable references (torch 2.x, float64).
Not part of any check (checks do not import torch)."""
import os, sys, random
HERE = os.path.dirname(os.path.abspath(__file__)); sys.path.insert(0, os.path.dirname(HERE))
from simkit import env  # noqa
import numpy as np
import torch
from sims.optsim import OptModel
from sims.layersim import BNModel

rng = random.Random(7)
worst = 0.0
n_cfg = 0
for trial in range(400):
    kind = rng.choice(["SGD", "Adam", "AdamW"])
    if kind == "SGD":
        mu = rng.choice([0, 0.5, 0.9]); nest = mu > 0 and rng.random() < 0.4
        hp = {"lr": 10 ** rng.uniform(-3, -0.5), "momentum": mu, "dampening": 0 if nest else rng.choice([0, 0.3]), "nesterov": nest,
              "weight_decay": rng.choice([0, 0.01, 0.1]), "maximize": rng.random() < 0.3}
    else:
        hp = {"lr": 10 ** rng.uniform(-3, -1), "betas": rng.choice([[0.9, 0.999], [0.5, 0.9], [0.0, 0.5]]), "eps": rng.choice([1e-8, 1e-3, 0.1]),
              "weight_decay": rng.choice([0, 0.01, 0.1]), "maximize": rng.random() < 0.3}
    shapes = [rng.choice([(), (3,), (2, 3)]) for _ in range(rng.randint(1, 3))]
    ps = [torch.tensor(np.random.RandomState(trial * 10 + i).randn(*s), dtype=torch.float64, requires_grad=True) for i, s in enumerate(shapes)]
    if kind == "SGD":
        opt = torch.optim.SGD(ps, lr=hp["lr"], momentum=hp["momentum"], dampening=hp["dampening"], nesterov=hp["nesterov"], weight_decay=hp["weight_decay"], maximize=hp["maximize"])
    else:
        opt = getattr(torch.optim, kind)(ps, lr=hp["lr"], betas=tuple(hp["betas"]), eps=hp["eps"], weight_decay=hp["weight_decay"], maximize=hp["maximize"])
    model = OptModel(kind, hp, len(ps))
    # torch follows the code order / per-parameter step count
    want_variant = {"SGD": "code_order" if (hp["maximize"] and hp["weight_decay"]) else "doc_order", "Adam": "per_param_t", "AdamW": "per_param_t"}[kind]
    var = [v for v in model.variants if v.name == want_variant][0]
    for step in range(rng.randint(1, 6)):
        grads = []
        for p in ps:
            if rng.random() < 0.25:
                p.grad = None; grads.append(None)
            else:
                g = np.random.RandomState(trial * 100 + step).randn(*p.shape); p.grad = torch.tensor(g, dtype=torch.float64); grads.append(g)
        pre = [p.detach().numpy().copy() for p in ps]
        opt.step(); model.t += 1
        for i, p in enumerate(ps):
            if grads[i] is None:
                continue
            exp = model.predict(var, i, pre[i], np.asarray(grads[i]), commit=True)
            worst = max(worst, float(np.max(np.abs(exp - p.detach().numpy()))) if exp.size else 0.0)
    n_cfg += 1
print(f"OptModel vs torch.optim: {n_cfg} configurations with skipped parameters, worst abs deviation {worst:.3g}")
assert worst < 1e-12

worst = 0.0
n_fw = 0
for trial in range(300):
    C = rng.randint(1, 4); mom = rng.choice([0.1, None, 0.5, 1.0]); affine = rng.random() < 0.7; track = rng.random() < 0.8
    two_d = rng.random() < 0.4
    tb = (torch.nn.BatchNorm2d if two_d else torch.nn.BatchNorm1d)(C, eps=1e-5, momentum=mom, affine=affine, track_running_stats=track).double()
    m = BNModel(C, 1e-5, mom, affine, track)
    if affine:
        with torch.no_grad():
            tb.weight.copy_(torch.tensor(np.random.RandomState(trial).randn(C))); tb.bias.copy_(torch.tensor(np.random.RandomState(trial + 1).randn(C)))
    for k in range(rng.randint(1, 6)):
        training = rng.random() < 0.6
        tb.train(training)
        shape = (rng.randint(2, 5), C, rng.randint(1, 3), rng.randint(2, 3)) if two_d else rng.choice([(rng.randint(2, 6), C), (rng.randint(2, 4), C, rng.randint(2, 4))])
        x = np.random.RandomState(trial * 50 + k).randn(*shape)
        want = tb(torch.tensor(x)).detach().numpy()
        got = m.forward(x, training, tb.weight.detach().numpy() if affine else None, tb.bias.detach().numpy() if affine else None)
        worst = max(worst, float(np.max(np.abs(want - got))))
        if track:
            worst = max(worst, float(np.max(np.abs(tb.running_mean.numpy() - m.rm))), float(np.max(np.abs(tb.running_var.numpy() - m.rv))))
            assert int(tb.num_batches_tracked) == m.nbt
        n_fw += 1
print(f"BNModel vs torch.nn.BatchNorm1d/2d: {n_fw} forwards, worst abs deviation {worst:.3g}")
assert worst < 1e-9
print("models validated")
