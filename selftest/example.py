"""usage: selftest/example.py PROP MUTANT_NAME DEST  - produce the minimised replay a mutant yields (for findings/)"""
import glob, os, shutil, sys, tempfile
HERE = os.path.dirname(os.path.abspath(__file__)); sys.path.insert(0, HERE); sys.path.insert(0, os.path.dirname(HERE))
import mutate
from mutants import MUTANTS
prop, name, dest = sys.argv[1:4]
runs = int(sys.argv[4]) if len(sys.argv) > 4 else 6000
d = mutate.make_copy(MUTANTS[prop][name]); out = tempfile.mkdtemp(prefix="vmut_out_", dir="/tmp")
try:
    rc, txt, dt = mutate.run_check(prop, d, runs, out)
    print(txt[-600:])
    fs = sorted(glob.glob(os.path.join(out, "replays", "*.json")))
    if fs: shutil.copy(fs[0], dest); print("saved", dest)
finally:
    shutil.rmtree(d, ignore_errors=True); shutil.rmtree(out, ignore_errors=True)
