"""Determinism of the simulator, on a larger sample than the per-check self-test:
for every engine the same run indices are executed (a) with 1 worker, (b) with 16 workers, (c) with 16 workers under another
PYTHONHASHSEED, each in its own interpreter; the aggregate digests (events + observation logs of all runs, in run-index order)
must be identical.   usage: selftest/determinism.py [IDs...] [--runs N]
(keep --runs small enough for the 1-worker pass to finish inside the wall cap of the quick tier: a capped pass covers fewer runs and
its digest is not comparable - C17 and C19 have their own small defaults)"""
import json, os, shutil, subprocess, sys, tempfile
HERE = os.path.dirname(os.path.abspath(__file__)); VERIF = os.path.dirname(HERE); sys.path.insert(0, VERIF)
from sims import _ENGINES
ids = [a for a in sys.argv[1:] if not a.startswith("--") and not a.isdigit()] or sorted(_ENGINES)
runs = int(sys.argv[sys.argv.index("--runs") + 1]) if "--runs" in sys.argv else None
DEFAULT = {"C17": 24, "C19": 48}
bad = 0
for prop in ids:
    n = runs or DEFAULT.get(prop, 3000)
    digs = []
    for workers, hashseed in ((1, "0"), (16, "0"), (16, "98765")):
        out = tempfile.mkdtemp(prefix="vdet_", dir="/tmp")
        env = dict(os.environ, VERIF_OUT=out, PYTHONHASHSEED=hashseed)
        r = subprocess.run([os.path.join(VERIF, "bin", "check"), prop, "--runs", str(n), "--workers", str(workers), "--no-selftest"], env=env, capture_output=True, text=True)
        try:
            digs.append(json.load(open(os.path.join(out, "evidence", prop + ".json")))["coverage"]["aggregate_digest"] if r.returncode == 0 else f"exit {r.returncode}")
        except Exception as e:
            digs.append(f"error {e}")
        shutil.rmtree(out, ignore_errors=True)
    ok = len(set(digs)) == 1 and not digs[0].startswith("e")
    bad += not ok
    print(f"{'ok  ' if ok else 'FAIL'} {prop} runs={n} digests: 1 worker {digs[0][:12]} | 16 workers {digs[1][:12]} | 16 workers, other hash seed {digs[2][:12]}", flush=True)
sys.exit(1 if bad else 0)
