"""Seeded changes written by independent sub-agents (they saw only the property text).

usage: selftest/seeded.py neutral-verify|neutral-check [ID-k ...] [--all-props]   - behaviour-preserving refactorings under neutral/<ID>-k/: every check stays silent
       selftest/seeded.py verify [ID-k ...]   - confirm: applies, test-suite unchanged, demo fails with / passes without
       selftest/seeded.py check  [ID-k ...] [--runs N] [--all-props]  - run the property's check on a scratch copy with the change
"""
import glob
import json
import os
import shutil
import subprocess
import sys
import tempfile
import time

HERE = os.path.dirname(os.path.abspath(__file__))
VERIF = os.path.dirname(HERE)
REPO = "/repo"
PY = "/venv/bin/python"


def scratch(patch=None):
    d = tempfile.mkdtemp(prefix="vseed_", dir="/tmp")
    for sub in ("synapgrad", "tests"):
        shutil.copytree(os.path.join(REPO, sub), os.path.join(d, sub), ignore=shutil.ignore_patterns("__pycache__"))
    if patch:
        r = subprocess.run(["patch", "-p1", "--no-backup-if-mismatch", "-i", patch], cwd=d, capture_output=True, text=True)
        if r.returncode != 0:
            shutil.rmtree(d)
            raise SystemExit(f"patch does not apply: {patch}\n{r.stdout}{r.stderr}")
    return d


def run(cmd, cwd, env=None, timeout=1800):
    e = dict(os.environ, PYTHONPATH=cwd, PYTHONDONTWRITEBYTECODE="1")
    e.update(env or {})
    return subprocess.run(cmd, cwd=cwd, env=e, capture_output=True, text=True, timeout=timeout)


def verify(name):
    d = os.path.join(VERIF, "seeded", name)
    out = {}
    s = scratch(os.path.join(d, "patch.diff"))
    try:
        r = run([PY, "-m", "pytest", "-q", "-p", "no:cacheprovider", "tests"], s)
        tail = r.stdout.strip().split("\n")[-1]
        out["tests_with_change"] = tail
        r = run([PY, os.path.join(d, "demo.py")], s)
        out["demo_with_change_exit"] = r.returncode
    finally:
        shutil.rmtree(s, ignore_errors=True)
    s = scratch(None)
    try:
        r = run([PY, os.path.join(d, "demo.py")], s)
        out["demo_without_change_exit"] = r.returncode
    finally:
        shutil.rmtree(s, ignore_errors=True)
    out["confirmed"] = ("1 failed, 92 passed" in out["tests_with_change"] and out["demo_with_change_exit"] != 0 and out["demo_without_change_exit"] == 0)
    return out


def check(name, props, runs):
    d = os.path.join(VERIF, "seeded", name)
    s = scratch(os.path.join(d, "patch.diff"))
    o = tempfile.mkdtemp(prefix="vseed_out_", dir="/tmp")
    res = {}
    try:
        for prop in props:
            cmd = [os.path.join(VERIF, "bin", "check"), prop, "--no-selftest"] + (["--runs", str(runs)] if runs else [])
            t0 = time.time()
            r = subprocess.run(cmd, capture_output=True, text=True, env=dict(os.environ, VERIF_REPO=s, VERIF_OUT=o, VERIF_STOP_EARLY="1"))
            clause = [l.strip() for l in r.stdout.split("\n") if l.strip().startswith("clause=")]
            res[prop] = {"exit": r.returncode, "clause": clause[0][:160] if clause else "", "wall": round(time.time() - t0, 1),
                         "tail": "" if r.returncode in (0, 1) else (r.stdout + r.stderr)[-400:]}
    finally:
        shutil.rmtree(s, ignore_errors=True)
        shutil.rmtree(o, ignore_errors=True)
    return res


def neutral_verify(name):
    """a behaviour-preserving refactoring written by a sub-agent: test-suite unchanged, its own equivalence digest equal on both trees"""
    d = os.path.join(VERIF, "neutral", name)
    out = {}
    s = scratch(os.path.join(d, "patch.diff"))
    try:
        r = run([PY, "-m", "pytest", "-q", "-p", "no:cacheprovider", "tests"], s)
        out["tests_with_refactoring"] = r.stdout.strip().split("\n")[-1]
        r = run([PY, os.path.join(d, "equiv.py")], s)
        out["equiv_with"] = (r.stdout.strip().split("\n") or [""])[-1][-80:] if r.returncode == 0 else f"exit {r.returncode}"
    finally:
        shutil.rmtree(s, ignore_errors=True)
    s = scratch(None)
    try:
        r = run([PY, os.path.join(d, "equiv.py")], s)
        out["equiv_without"] = (r.stdout.strip().split("\n") or [""])[-1][-80:] if r.returncode == 0 else f"exit {r.returncode}"
    finally:
        shutil.rmtree(s, ignore_errors=True)
    out["confirmed"] = "1 failed, 92 passed" in out["tests_with_refactoring"] and out["equiv_with"] == out["equiv_without"] and not out["equiv_with"].startswith("exit")
    return out


def neutral_check(name, props, runs):
    d = os.path.join(VERIF, "neutral", name)
    s = scratch(os.path.join(d, "patch.diff"))
    o = tempfile.mkdtemp(prefix="vneut_out_", dir="/tmp")
    res = {}
    try:
        for prop in props:
            cmd = [os.path.join(VERIF, "bin", "check"), prop, "--no-selftest"] + (["--runs", str(runs)] if runs else [])
            t0 = time.time()
            r = subprocess.run(cmd, capture_output=True, text=True, env=dict(os.environ, VERIF_REPO=s, VERIF_OUT=o, VERIF_STOP_EARLY="1"))
            clause = [l.strip() for l in r.stdout.split("\n") if l.strip().startswith("clause=")]
            res[prop] = {"exit": r.returncode, "clause": clause[0][:260] if clause else "", "wall": round(time.time() - t0, 1),
                         "tail": "" if r.returncode in (0, 1) else (r.stdout + r.stderr)[-400:]}
            if r.returncode == 1:
                keep = os.path.join("/tmp", f"neutral_alarm_{name}_{prop}")
                shutil.rmtree(keep, ignore_errors=True)
                shutil.copytree(os.path.join(o, "replays"), keep)
    finally:
        shutil.rmtree(s, ignore_errors=True)
        shutil.rmtree(o, ignore_errors=True)
    return res


def main(argv):
    mode = argv[0]
    if mode.startswith("neutral"):
        allp = "--all-props" in argv
        names = [a for a in argv[1:] if not a.startswith("--")] or sorted(n for n in os.listdir(os.path.join(VERIF, "neutral")) if os.path.isdir(os.path.join(VERIF, "neutral", n)))
        sys.path.insert(0, VERIF)
        from sims import _ENGINES
        for name in names:
            if mode == "neutral-verify":
                print(name, json.dumps(neutral_verify(name)), flush=True)
            else:
                res = neutral_check(name, sorted(_ENGINES) if allp else [name.split("-")[0]], None)
                for p_, r in res.items():
                    flag = "silent" if r["exit"] == 0 else ("ALARM " if r["exit"] == 1 else "ERROR ")
                    print(f"{flag} {name} under {p_} ({r['wall']}s) {r['clause']} {r['tail']}", flush=True)
        return
    runs = None
    allp = "--all-props" in argv
    names = []
    it = iter(argv[1:])
    for a in it:
        if a == "--runs":
            runs = int(next(it))
        elif a == "--all-props":
            pass
        else:
            names.append(a)
    names = names or sorted(os.path.basename(p) for p in glob.glob(os.path.join(VERIF, "seeded", "C*-*")))
    sys.path.insert(0, VERIF)
    from sims import _ENGINES
    for name in names:
        prop = name.split("-")[0]
        mp = os.path.join(VERIF, "seeded", name, "meta.json")
        if mode == "check" and os.path.exists(mp) and json.load(open(mp)).get("obsolete"):
            print(f"skip   {name} (obsolete: no longer a breaking change on the current tree, see meta.json)", flush=True)
            continue
        meta = json.load(open(mp)) if os.path.exists(mp) else {}
        if mode == "check" and meta.get("not_asserted"):
            print(f"n/a    {name} (deliberately not asserted, see meta.json / DESIGN.md 12.6)", flush=True)
            continue
        if mode == "verify":
            out = verify(name)
            print(name, json.dumps(out), flush=True)
        else:
            props = sorted(_ENGINES) if allp else (meta.get("caught_by") or [prop])
            res = check(name, props, runs)
            for p, r in res.items():
                flag = "CAUGHT" if r["exit"] == 1 else ("missed" if r["exit"] == 0 else "ERROR ")
                print(f"{flag} {name} by {p} ({r['wall']}s) {r['clause']} {r['tail']}", flush=True)


if __name__ == "__main__":
    main(sys.argv[1:])
