"""Sensitivity / no-false-alarm self-test of the framework (not part of any check).

usage: selftest/mutate.py [ID ...] [--neutral] [--runs N | --frac F] [--only NAME]     (--frac: that fraction of each check's quick budget)

For each mutant (a string replacement in a scratch copy of /repo/synapgrad, outside /repo
and /verif) run the property's check with VERIF_REPO pointing at the copy and expect
exit 1 with a VIOLATION line; for each neutral refactor expect exit 0 from every check.
"""
import os
import shutil
import subprocess
import sys
import tempfile
import time

HERE = os.path.dirname(os.path.abspath(__file__))
VERIF = os.path.dirname(HERE)
sys.path.insert(0, HERE)
from mutants import MUTANTS, NEUTRAL, NEUTRAL_EXCEPT  # noqa: E402

REPO = os.environ.get("VERIF_REPO", "/repo")


def make_copy(edits):
    d = tempfile.mkdtemp(prefix="vmut_", dir="/tmp")
    shutil.copytree(os.path.join(REPO, "synapgrad"), os.path.join(d, "synapgrad"), ignore=shutil.ignore_patterns("__pycache__"))
    for rel, old, new in edits:
        p = os.path.join(d, rel)
        s = open(p).read()
        if s.count(old) < 1:
            shutil.rmtree(d)
            raise SystemExit(f"mutant edit does not apply: {rel}: {old[:60]!r}")
        open(p, "w").write(s.replace(old, new, 1))
    return d


FRAC = [None]


def run_check(prop, repo, runs, out):
    env = dict(os.environ, VERIF_REPO=repo, VERIF_OUT=out)
    if FRAC[0] and not runs:
        sys.path.insert(0, VERIF)
        from sims import REGISTRY
        runs = max(8, int(REGISTRY[prop].QUICK_RUNS * FRAC[0]))
    if os.environ.get("VERIF_MUTANT_MODE") != "neutral":
        env["VERIF_STOP_EARLY"] = "1"
    cmd = [os.path.join(VERIF, "bin", "check"), prop, "--no-selftest"]
    if runs:
        cmd += ["--runs", str(runs)]
    t0 = time.time()
    r = subprocess.run(cmd, capture_output=True, text=True, env=env)
    return r.returncode, r.stdout + r.stderr, time.time() - t0


def main(argv):
    neutral = "--neutral" in argv
    runs = None
    only = None
    ids = []
    it = iter(argv)
    for a in it:
        if a == "--runs":
            runs = int(next(it))
        elif a == "--only":
            only = next(it)
        elif a == "--neutral":
            pass
        elif a == "--frac":
            FRAC[0] = float(next(it))
        else:
            ids.append(a)
    bad = 0
    out = tempfile.mkdtemp(prefix="vmut_out_", dir="/tmp")
    try:
        if neutral:
            from sims import _ENGINES  # type: ignore
        if neutral:
            props = ids or sorted(_ENGINES)
            for name, edits in NEUTRAL.items():
                if only and only != name:
                    continue
                d = make_copy(edits)
                try:
                    for prop in props:
                        if prop in NEUTRAL_EXCEPT.get(name, ()):
                            continue
                        rc, txt, dt = run_check(prop, d, runs, out)
                        ok = rc == 0
                        bad += not ok
                        print(f"{'ok  ' if ok else 'FAIL'} neutral {name:38s} {prop} exit={rc} {dt:5.1f}s", flush=True)
                        if not ok:
                            print("      " + "\n      ".join(txt.strip().split("\n")[-6:]))
                finally:
                    shutil.rmtree(d, ignore_errors=True)
        else:
            for prop in ids or sorted(MUTANTS):
                for name, edits in MUTANTS.get(prop, {}).items():
                    if only and only != name:
                        continue
                    d = make_copy(edits)
                    try:
                        rc, txt, dt = run_check(prop, d, runs, out)
                        ok = rc == 1 and "VIOLATION property=" + prop in txt
                        bad += not ok
                        clause = [l.strip() for l in txt.split("\n") if l.strip().startswith("clause=")]
                        print(f"{'ok  ' if ok else 'MISS'} mutant {prop} {name:42s} exit={rc} {dt:5.1f}s {clause[0][:110] if clause else ''}", flush=True)
                        if rc == 2:
                            print("      " + "\n      ".join(txt.strip().split("\n")[-6:]))
                    finally:
                        shutil.rmtree(d, ignore_errors=True)
    finally:
        shutil.rmtree(out, ignore_errors=True)
    print("all as expected" if not bad else f"{bad} not as expected")
    return 1 if bad else 0


if __name__ == "__main__":
    sys.path.insert(0, VERIF)
    sys.exit(main(sys.argv[1:]))
