"""Graph bookkeeping shared by the program-level engines: tensors by id, which op event
produced which tensor, reachability, and rebuilding a (sub)program from fresh tensors -
as is, with per-use leaf copies, fully tree-expanded, or in another construction order."""
import numpy as np

from . import ops
from .world import SEAM, LINES


class TooBig(Exception):
    pass


class Graph:
    def __init__(self, SG):
        self.SG = SG
        self.T = {}        # id -> Tensor
        self.meta = {}     # id -> {"kind": "leaf"|"node", "ev": op event, "k": output index, "inputs": [...], "rg": bool}
        self.op_events = []   # op events in construction order
        self.bfs = {}      # id(op event) -> list of BackwardFunction objects constructed by that event

    def add_leaf(self, i, t, **extra):
        self.T[i] = t
        self.meta[i] = dict({"kind": "leaf", "inputs": [], "rg": bool(t.requires_grad)}, **extra)

    def apply(self, ev, trace_bfs=False):
        """apply an op event to the live tensors; returns the list of results (and registers them)"""
        xs = [self.T[i] for i in ev["in"]]
        if trace_bfs:
            saved, SEAM.bw_created = SEAM.bw_created, []
        try:
            res = ops.as_list(ops.apply_op(self.SG, ev["op"], xs, ev["args"]))
        finally:
            LINES.disarm()          # line-level crash points end with the system call; the bookkeeping below reads library properties
            if trace_bfs:
                created, SEAM.bw_created = SEAM.bw_created, saved
        if trace_bfs:
            self.bfs[id(ev)] = created
        for k, (i, t) in enumerate(zip(ev["out"], res)):
            self.T[i] = t
            self.meta[i] = {"kind": "node", "ev": ev, "k": k, "inputs": list(ev["in"]), "rg": bool(t.requires_grad)}
        self.op_events.append(ev)
        return res

    def has_inputs(self, ev):
        return all(i in self.T for i in ev["in"])

    def reach(self, root):
        seen, stack = set(), [root]
        while stack:
            i = stack.pop()
            if i in seen:
                continue
            seen.add(i)
            stack.extend(self.meta[i]["inputs"])
        return seen

    def leaves(self, ids=None):
        return [i for i in (ids if ids is not None else self.T) if self.meta[i]["kind"] == "leaf"]

    def events_for(self, ids):
        """op events (in construction order) that produce any of `ids`"""
        want = set(ids)
        return [ev for ev in self.op_events if any(o in want for o in ev["out"])]

    # ---------------------------------------------------------------- rebuilding
    def fresh_leaf(self, i, dtype=None, data=None, rg=None):
        m = self.meta[i]
        d = self.T[i].data if data is None else data
        d = np.array(d, dtype=dtype or d.dtype, copy=True)
        return self.SG.Tensor(d, requires_grad=m["rg"] if rg is None else rg)

    def rebuild(self, root, order=None, leaf_data=None, rg=None, split_leaves=False, hook=None):
        """Rebuild the sub-program reachable from `root` on fresh tensors.
        order: list of op events to apply (a linear extension); default: construction order.
        leaf_data: {leaf id: array} overriding values.  split_leaves: every use of a requires-grad
        leaf gets its own copy (returned in clones).  Returns (fresh dict, clones dict)."""
        reach = self.reach(root)
        fresh, clones = {}, {}
        if not split_leaves:
            for i in self.leaves(reach):
                fresh[i] = self.fresh_leaf(i, data=None if leaf_data is None else leaf_data.get(i), rg=rg)

        def operand(j):
            if split_leaves and self.meta[j]["kind"] == "leaf":
                c = self.fresh_leaf(j, data=None if leaf_data is None else leaf_data.get(j), rg=rg)
                if self.meta[j]["rg"]:
                    clones.setdefault(j, []).append(c)
                return c
            return fresh[j]

        evs = order if order is not None else self.events_for(reach)
        for n, ev in enumerate(evs):
            res = ops.as_list(ops.apply_op(self.SG, ev["op"], [operand(j) for j in ev["in"]], ev["args"]))
            for o, t in zip(ev["out"], res):
                fresh[o] = t
            if hook is not None:
                hook(n)
        if self.meta[root]["kind"] == "leaf" and split_leaves:
            fresh[root] = operand(root)
        return fresh, clones

    def expand_tree(self, root, max_leaves=512, max_ops=3000, max_elems=4_000_000):
        """Unfold the DAG under `root` into a tree: every USE of a value gets its own copy of the
        sub-computation beneath it.  Returns (tree root tensor, {leaf id: [copies]})."""
        clones = {}
        count = {"leaves": 0, "ops": 0, "elems": 0}
        self.tree_made = made = []

        def expand(i):
            m = self.meta[i]
            if m["kind"] == "leaf":
                count["leaves"] += 1
                if count["leaves"] > max_leaves:
                    raise TooBig()
                c = self.fresh_leaf(i)
                if m["rg"]:
                    clones.setdefault(i, []).append(c)
                return c
            ev = m["ev"]
            count["ops"] += 1
            if count["ops"] > max_ops:
                raise TooBig()
            xs = [expand(j) for j in ev["in"]]
            res = ops.as_list(ops.apply_op(self.SG, ev["op"], xs, ev["args"]))
            made.append(res[m["k"]])
            count["elems"] += sum(int(r.data.size) for r in res)
            if count["elems"] > max_elems:
                raise TooBig()          # (memory budget: large tensors times many paths)
            return res[m["k"]]

        return expand(root), clones
