"""Process environment for every check: thread pools off, repo under test first on
sys.path, stub modules for the training utilities' optional dependencies.

Must be imported before numpy / synapgrad.
"""
import os
import sys
import types

for _v in ("OMP_NUM_THREADS", "OPENBLAS_NUM_THREADS", "MKL_NUM_THREADS", "NUMEXPR_NUM_THREADS"):
    os.environ[_v] = "1"
os.environ.setdefault("PYTHONDONTWRITEBYTECODE", "1")
sys.dont_write_bytecode = True

VERIF_DIR = os.path.dirname(os.path.dirname(os.path.abspath(__file__)))
REPO = os.path.abspath(os.environ.get("VERIF_REPO", "/repo"))
OUT_DIR = os.path.abspath(os.environ.get("VERIF_OUT", VERIF_DIR))   # evidence/ and replays/ go here


class HarnessError(Exception):
    """Problem of the machinery itself (never a property violation)."""


class _Kbar:
    """Stub of pkbar.Kbar: records calls, reads no clock, prints nothing."""
    calls = 0

    def __init__(self, *a, **k):
        pass

    def update(self, *a, **k):
        _Kbar.calls += 1

    def add(self, *a, **k):
        _Kbar.calls += 1


def _install_stubs():
    pk = types.ModuleType("pkbar")
    pk.Kbar = _Kbar
    pk.Pbar = _Kbar
    sys.modules["pkbar"] = pk
    mpl = types.ModuleType("matplotlib")
    plt = types.ModuleType("matplotlib.pyplot")
    for name in ("figure", "plot", "title", "ylabel", "xlabel", "ylim", "legend", "subplot", "show"):
        setattr(plt, name, lambda *a, **k: None)
    plt.style = types.SimpleNamespace(use=lambda *a, **k: None)
    mpl.pyplot = plt
    sys.modules["matplotlib"] = mpl
    sys.modules["matplotlib.pyplot"] = plt
    sk = types.ModuleType("sklearn")
    skm = types.ModuleType("sklearn.metrics")
    for name in ("accuracy_score", "roc_auc_score", "confusion_matrix", "classification_report"):
        setattr(skm, name, lambda *a, **k: None)
    sk.metrics = skm
    sys.modules["sklearn"] = sk
    sys.modules["sklearn.metrics"] = skm


_SG = None


def load():
    """Import synapgrad from REPO's working tree and return a namespace of its modules."""
    global _SG
    if _SG is not None:
        return _SG
    if not os.path.isdir(os.path.join(REPO, "synapgrad")):
        raise HarnessError(f"no synapgrad package under {REPO}")
    # the repo under test goes first: this overrides the editable install in /venv
    sys.path[:] = [p for p in sys.path if os.path.abspath(p or ".") != REPO]
    sys.path.insert(0, REPO)
    _install_stubs()
    try:
        import synapgrad  # noqa
        import synapgrad.nn.utils  # noqa  (needs the stubs)
    except HarnessError:
        raise
    except BaseException as e:  # import-time breakage of the tree under test
        raise HarnessError(f"cannot import synapgrad from {REPO}: {type(e).__name__}: {e}")
    if not os.path.abspath(synapgrad.__file__).startswith(REPO + os.sep):
        raise HarnessError(f"synapgrad imported from {synapgrad.__file__}, expected under {REPO}")
    ns = types.SimpleNamespace()
    ns.sg = synapgrad
    ns.T = sys.modules["synapgrad.tensor"]          # attribute `synapgrad.tensor` is shadowed by tensor()
    ns.F = sys.modules["synapgrad.functional"]
    ns.NF = sys.modules["synapgrad.nn.functional"]
    ns.cpu_ops = sys.modules["synapgrad.cpu_ops"]
    ns.conv_tools = sys.modules["synapgrad.conv_tools"]
    ns.nn = sys.modules["synapgrad.nn"]
    ns.modules = sys.modules["synapgrad.nn.modules"]
    ns.layers = sys.modules["synapgrad.nn.layers"]
    ns.losses = sys.modules["synapgrad.nn.losses"]
    ns.init = sys.modules["synapgrad.nn.init"]
    ns.optim = sys.modules["synapgrad.optim.optimizers"]
    ns.utils = sys.modules["synapgrad.utils"]
    ns.data = sys.modules["synapgrad.nn.utils.data"]
    ns.train = sys.modules["synapgrad.nn.utils.train"]
    ns.Tensor = ns.T.Tensor
    ns.Kbar = _Kbar
    _SG = ns
    return ns


def repo_head():
    import subprocess
    try:
        out = subprocess.run(["git", "-C", REPO, "rev-parse", "--short", "HEAD"], capture_output=True, text=True, timeout=10)
        dirty = subprocess.run(["git", "-C", REPO, "status", "--porcelain", "--untracked-files=no"], capture_output=True, text=True, timeout=10)
        return out.stdout.strip() + ("+dirty" if dirty.stdout.strip() else "")
    except Exception:
        return "unknown"
