"""Runner: seeded search over runs, sharded over processes; minimisation; replay; evidence."""
import faulthandler
import hashlib
import json
import multiprocessing
import os
import signal
import threading
import subprocess
import sys
import time
import traceback
from collections import Counter
from concurrent.futures import ProcessPoolExecutor

from . import env
from .core import GenSource, ListSource, StopRun, derive_rng, SIM_VERSION
from . import findings as findings_mod

DEFAULT_SEED = 20261004


def get_sim(prop):
    from sims import REGISTRY
    if prop not in REGISTRY:
        raise env.HarnessError(f"no engine for {prop}")
    return REGISTRY[prop]()


# ---------------------------------------------------------------- single runs

class RunTimeout(BaseException):
    pass


def _alarm(signum, frame):
    raise RunTimeout()


def _execute(sim, st, src):
    """run one simulated execution under a watchdog: a run that normally takes milliseconds and does not finish within
    sim.RUN_TIMEOUT seconds is reported as <PROP>.hang (step caps do not bound hangs inside the system under test)"""
    limit = getattr(sim, "RUN_TIMEOUT", 60)
    use_alarm = threading.current_thread() is threading.main_thread() and signal.getitimer(signal.ITIMER_REAL)[0] == 0   # (not nested)
    if use_alarm:
        old = signal.signal(signal.SIGALRM, _alarm)
        signal.setitimer(signal.ITIMER_REAL, limit)
    try:
        sim.execute(st, src)
    except StopRun:
        pass
    except RunTimeout:
        st.failures.append((sim.PROP + ".hang", f"the run did not finish within {limit} s (runs of this engine normally take milliseconds): "
                            f"an operation of the system under test does not terminate; last event: {json.dumps(st.events[-1], default=str)[:200] if st.events else None}", {}))
    finally:
        if use_alarm:
            signal.setitimer(signal.ITIMER_REAL, 0)
            signal.signal(signal.SIGALRM, old)
    return st


def run_generated(sim, seed, idx, tier):
    rng = derive_rng(seed, sim.PROP, idx)
    knobs = sim.knobs(rng, tier)
    st = sim.start(knobs)
    src = GenSource(sim, rng, knobs.get("max_events", sim.MAX_EVENTS))
    return _execute(sim, st, src)


def run_replay(sim, knobs, events):
    st = sim.start(knobs)
    return _execute(sim, st, ListSource(events))


# ---------------------------------------------------------------- minimisation

def minimise(sim, knobs, events, clause, budget_s=25.0, max_replays=400):
    """Delta debugging on the recorded events; a candidate is kept only if the same
    clause still fails."""
    t0 = time.time()
    replays = [0]

    def fails(evs):
        if replays[0] >= max_replays or time.time() - t0 > budget_s:
            return False
        replays[0] += 1
        try:
            st = run_replay(sim, knobs, evs)
        except Exception:
            return False
        return bool(st.failures) and st.failures[0][0] == clause

    cur = list(events)
    if clause.endswith(".hang"):
        return cur, 0          # every replay of a hanging run costs the full watchdog time: report it as recorded
    # the run stopped at the failing event: nothing after it matters
    n = 2
    while len(cur) >= 2:
        chunk = max(1, len(cur) // n)
        removed = False
        i = 0
        while i < len(cur):
            cand = cur[:i] + cur[i + chunk:]
            if cand and fails(cand):
                cur = cand
                removed = True
            else:
                i += chunk
        if removed:
            n = max(2, n - 1)
        else:
            if chunk == 1:
                break
            n = min(len(cur), n * 2)
    # argument-level simplification offered by the engine
    progress = True
    rounds = 0
    while progress and rounds < 6:
        progress = False
        rounds += 1
        for cand in sim.simplify(cur):
            if fails(cand):
                cur = cand
                progress = True
                break
    return cur, replays[0]


# ---------------------------------------------------------------- workers

def _init_worker():
    faulthandler.enable()
    try:            # die with the parent (a killed or timed-out check must not leave workers behind)
        import ctypes
        ctypes.CDLL("libc.so.6", use_errno=True).prctl(1, signal.SIGKILL)
    except Exception:
        pass


def _slim(x, limit=48):
    """evidence samples are illustrations, not replays: long value lists (a 257x256 parameter, a 70000-sample split) are summarised"""
    if isinstance(x, dict):
        return {k: _slim(v, limit) for k, v in x.items()}
    if isinstance(x, (list, tuple)):
        if len(x) > limit:
            return [_slim(v, limit) for v in x[:8]] + [f"... {len(x) - 8} more values omitted"]
        return [_slim(v, limit) for v in x]
    if isinstance(x, str) and len(x) > 400:
        return x[:400] + "..."
    return x


def _chunk(args):
    prop, tier, seed, start, count, want_events = args
    idx = start
    try:
        sim = get_sim(prop)
        hard = getattr(sim, "RUN_TIMEOUT", 60) + 240      # last resort if the SIGALRM watchdog cannot interrupt (a C call that never returns)
        out = {
            "start": start, "runs": 0, "events": 0, "nontrivial": 0, "sigs": set(), "probes": Counter(), "faults": Counter(),
            "notes": Counter(), "failures": [], "digests": [], "samples": [], "kernel_entries": 0, "error": None,
        }
        for idx in range(start, start + count):
            faulthandler.dump_traceback_later(hard, exit=True)
            if os.environ.get("VERIF_DEBUG_MEM"):
                open(f"/tmp/verif_cur_{os.getpid()}", "w").write(str(idx))
            st = run_generated(sim, seed, idx, tier)
            if os.environ.get("VERIF_DEBUG_MEM"):
                rss = int(open("/proc/self/statm").read().split()[1]) * 4096 // 2 ** 20
                if rss > int(os.environ["VERIF_DEBUG_MEM"]):
                    print(f"[mem] pid {os.getpid()} rss {rss} MB after run {idx} (chunk {start}+{count}) knobs {st.knobs.get('scenario')} events {len(st.events)}", file=sys.stderr, flush=True)
            out["runs"] += 1
            out["events"] += st.n_events
            out["probes"].update(st.probes)
            out["faults"].update(st.faults)
            out["notes"].update(st.notes)
            if st.nontrivial:
                out["nontrivial"] += 1
                out["sigs"].add(st.signature())
            out["digests"].append(st.digest())
            if want_events and len(out["samples"]) < want_events and st.nontrivial:
                out["samples"].append({"run_index": idx, "knobs": _slim(st.knobs), "events": [_slim(e) for e in st.events[:60]]})
            if st.failures and len(out["failures"]) < 4:
                clause, msg, detail = st.failures[0]
                out["failures"].append({"run_index": idx, "clause": clause, "message": msg, "detail": detail,
                                        "knobs": st.knobs, "events": st.events})
        return out
    except BaseException as e:  # harness problem inside a worker
        return {"start": start, "error": f"[run {idx}] {type(e).__name__}: {e}\n{traceback.format_exc()}"}
    finally:
        faulthandler.cancel_dump_traceback_later()


def digest_range(prop, tier, seed, start, count):
    sim = get_sim(prop)
    h = hashlib.sha256()
    for idx in range(start, start + count):
        st = run_generated(sim, seed, idx, tier)
        h.update(st.digest().encode())
    return h.hexdigest()


# ---------------------------------------------------------------- main check

def harness_error(msg):
    print(f"HARNESS-ERROR: {msg}", flush=True)
    sys.exit(2)


def write_evidence(path, data):
    os.makedirs(os.path.dirname(path), exist_ok=True)
    tmp = path + ".tmp"
    with open(tmp, "w") as f:
        json.dump(data, f, indent=1, sort_keys=True, default=str)
    os.replace(tmp, path)


def check(prop, tier, seed, runs=None, workers=None, wall_cap=None, selftest=True):
    t0 = time.time()
    sim = get_sim(prop)
    n_runs = runs or (sim.QUICK_RUNS if tier == "quick" else sim.THOROUGH_RUNS)
    workers = workers or min(16, os.cpu_count() or 1)
    wall_cap = wall_cap or (150 if tier == "quick" else 3000)
    chunk = max(1, min(500, n_runs // (workers * 6) or 1))
    tasks = []
    s = 0
    while s < n_runs:
        c = min(chunk, n_runs - s)
        tasks.append((prop, tier, seed, s, c, 2 if s == 0 else 0))
        s += c

    agg = {"runs": 0, "events": 0, "nontrivial": 0, "sigs": set(), "probes": Counter(), "faults": Counter(), "notes": Counter(),
           "failures": [], "digest": hashlib.sha256(), "samples": []}
    capped = False
    ctx = multiprocessing.get_context("fork")
    with ProcessPoolExecutor(max_workers=workers, mp_context=ctx, initializer=_init_worker) as ex:
        futs = []
        pending = list(tasks)
        # submit lazily so a wall cap can stop dispatching
        inflight = []
        results = {}
        while pending or inflight:
            while pending and len(inflight) < workers * 2:
                if time.time() - t0 > wall_cap:
                    capped = True
                    pending = []
                    break
                t = pending.pop(0)
                inflight.append((t, ex.submit(_chunk, t)))
            if not inflight:
                break
            t, fut = inflight.pop(0)
            try:
                res = fut.result(timeout=900)
            except Exception as e:
                harness_error(f"worker died or hung on chunk {t[3]}: {type(e).__name__}: {e}")
            if res.get("error"):
                harness_error(f"exception inside the harness (chunk at run {res['start']}):\n{res['error']}")
            results[res["start"]] = res
            if res["failures"] and os.environ.get("VERIF_STOP_EARLY"):
                # (self-tests of the framework only: mutants / seeded changes need one violation, not the whole budget)
                pending = []
    for start in sorted(results):
        res = results[start]
        for k in ("runs", "events", "nontrivial"):
            agg[k] += res[k]
        agg["sigs"] |= res["sigs"]
        agg["probes"].update(res["probes"])
        agg["faults"].update(res["faults"])
        agg["notes"].update(res["notes"])
        agg["failures"].extend(res["failures"])
        for dg in res["digests"]:          # per run, in run-index order: independent of how the runs were cut into chunks
            agg["digest"].update(dg.encode())
        agg["samples"].extend(res["samples"])

    # determinism self-test: same run indices again in this process and in a fresh
    # interpreter under another hash seed must give the same digests
    det = {"checked": 0, "ok": True}
    if selftest and not agg["failures"]:
        k = min(n_runs, getattr(sim, "SELFTEST_RUNS", 24) if tier == "quick" else getattr(sim, "SELFTEST_RUNS", 24) * 8)
        d1 = digest_range(prop, tier, seed, 0, k)
        d2 = digest_range(prop, tier, seed, 0, k)
        cmd = [sys.executable, os.path.join(env.VERIF_DIR, "simkit", "cli.py"), prop, "--digest", "0", str(k), "--tier", tier, "--seed", str(seed)]
        e2 = dict(os.environ, PYTHONHASHSEED="4242")
        out = subprocess.run(cmd, capture_output=True, text=True, env=e2, timeout=600)
        d3 = out.stdout.strip().split("\n")[-1] if out.returncode == 0 else f"fresh interpreter failed: {out.stderr[-400:]}"
        det = {"checked": k, "ok": d1 == d2 == d3, "in_process": [d1[:16], d2[:16]], "fresh_interpreter_other_hashseed": d3[:16]}
        if not det["ok"]:
            harness_error(f"determinism self-test failed for {prop}: {det}")

    # violations: minimise, verify the replay in a fresh process, report
    violations = []
    known = []
    seen_clauses = set()
    fl = findings_mod.load()
    # per clause prefer the first failing run that fails again when its own events are replayed alone (a run whose failure
    # depended on state left in the worker process by EARLIER runs - a module-level cache in the system - does not)
    ordered = sorted(agg["failures"], key=lambda f: f["run_index"])
    chosen = []
    for clause in dict.fromkeys(f["clause"] for f in ordered):
        cands = [f for f in ordered if f["clause"] == clause]
        pick = None
        for f in cands[:6]:
            r = run_replay(sim, f["knobs"], f["events"])
            if r.failures and r.failures[0][0] == clause:
                pick = f
                break
        chosen.append(pick or cands[0])
    for f in sorted(chosen, key=lambda f: f["run_index"]):
        if f["clause"] in seen_clauses or len(seen_clauses) >= 3:
            continue
        seen_clauses.add(f["clause"])
        events, n_rep = minimise(sim, f["knobs"], f["events"], f["clause"])
        st = run_replay(sim, f["knobs"], events)
        nondet = False
        if not st.failures or st.failures[0][0] != f["clause"]:
            events = f["events"]
            for _ in range(5):
                st = run_replay(sim, f["knobs"], events)
                if st.failures:
                    break
            if not st.failures:
                # The harness is deterministic (self-tested), the same events gave a different verdict: the SYSTEM's behaviour
                # depends on something outside the event list (object addresses, hash order, heap state).  Report what was seen.
                nondet = True
        if nondet:
            clause, msg, detail = f["clause"], f["message"] + "  [NON-DETERMINISTIC: observed in generation, 5 replays of the same events passed - " \
                "the system's result depends on object addresses / hash order / heap state]", f["detail"]
        else:
            clause, msg, detail = st.failures[0]
        matched = findings_mod.match(fl, sim, clause, f["knobs"], events)
        os.makedirs(os.path.join(env.OUT_DIR, "replays"), exist_ok=True)
        path = os.path.join(env.OUT_DIR, "replays", f"{prop}-{seed}-{f['run_index']}.json")
        with open(path, "w") as fh:
            json.dump({"property": prop, "clause": clause, "seed": seed, "run_index": f["run_index"], "tier": tier, "knobs": f["knobs"],
                       "events": events, "message": msg, "detail": detail, "digest": st.digest(), "original_length": len(f["events"]),
                       "minimisation_replays": n_rep, "repo_head": env.repo_head(), "simulator_version": SIM_VERSION}, fh, indent=1, default=str)
        if matched is not None:
            known.append((matched, path))
            continue
        # the replay file must reproduce in a fresh process
        cmd = [sys.executable, os.path.join(env.VERIF_DIR, "simkit", "cli.py"), prop, "--replay", path]
        out = None if nondet else subprocess.run(cmd, capture_output=True, text=True, timeout=600)
        if out is not None and out.returncode == 2:
            harness_error(f"replay {path} failed in a fresh process: {out.stdout[-300:]} {out.stderr[-300:]}")
        if out is not None and out.returncode == 0 and len(events) < len(f["events"]):
            # the minimised list fails here but not in a fresh process: state left in THIS process by earlier replays (a module-level
            # cache in the system) influenced the minimisation.  Fall back to the run as recorded.
            with open(path) as fh:
                rp = json.load(fh)
            rp["events"], rp["minimisation_invalidated_by_process_state"] = f["events"], True
            with open(path, "w") as fh:
                json.dump(rp, fh, indent=1, default=str)
            out = subprocess.run(cmd, capture_output=True, text=True, timeout=600)
            events = f["events"]
            msg += "  [not minimised: state left in the process by earlier executions influences the system]"
        if out is not None and (out.returncode != 1 or f"clause={clause}" not in out.stdout):
            # same events, different verdict in another process: the system under test is not a function of the event list
            msg += "  [NON-DETERMINISTIC across processes: a fresh interpreter " + \
                ("reported another clause" if out.returncode == 1 else "did not reproduce it") + "]"
        violations.append((clause, msg, path, len(events), len(f["events"])))

    wall = time.time() - t0
    zero_probes = [p for p in getattr(sim, "PROBES", []) if agg["probes"].get(p, 0) == 0]
    ev = {
        "property_id": prop, "tier": tier, "seed": seed, "level": "exploration", "wall_s": round(wall, 2),
        "violations": len(violations),
        "coverage": {
            "evaluations": agg["runs"], "distinct_nontrivial": len(agg["sigs"]), "rule": sim.RULE,
            "samples": agg["samples"][:2] or [{"note": "no non-trivial run in the first chunk"}],
            "nontrivial_runs": agg["nontrivial"], "events_executed": agg["events"],
            "simulated_time": "no clock in the system: logical time = events executed",
            "runs_per_hour": int(agg["runs"] / max(wall, 1e-6) * 3600), "workers": workers,
            "faults_fired": dict(sorted(agg["faults"].items())), "probes": dict(sorted(agg["probes"].items())),
            "probes_never_hit": zero_probes, "tallies": dict(sorted(agg["notes"].items())),
            "determinism_selftest": det, "aggregate_digest": agg["digest"].hexdigest()[:32],
            "real_components": sim.REAL, "stub_components": sim.STUB, "wall_capped": capped, "runs_requested": n_runs,
            "known_findings_matched": [k[0]["id"] for k in known], "engine": sim.NAME, "repo_head": env.repo_head(),
        },
        "assumptions": list(sim.ASSUMPTIONS),
    }
    write_evidence(os.path.join(env.OUT_DIR, "evidence", f"{prop}.json"), ev)
    for fnd, path in known:
        print(f"KNOWN-FINDING: property={prop} {fnd['what_fails']} (finding {fnd['id']}, example {path})")
    for clause, msg, path, n_min, n_orig in violations:
        print(f"  clause={clause} {msg}  [minimised {n_orig} -> {n_min} events]")
        print(f"VIOLATION property={prop} replay={path}")
    if zero_probes:
        print(f"note: probes never hit: {zero_probes}")
    print(f"{prop} {tier}: runs={agg['runs']} nontrivial={agg['nontrivial']} distinct={len(agg['sigs'])} events={agg['events']} "
          f"faults={dict(agg['faults'])} wall={wall:.1f}s{' (wall-capped)' if capped else ''} violations={len(violations)} known={len(known)}", flush=True)
    return 1 if violations else 0


def replay_file(prop, path):
    with open(path) as fh:
        rp = json.load(fh)
    if rp["property"] != prop:
        harness_error(f"{path} is a replay for {rp['property']}, not {prop}")
    sim = get_sim(prop)
    st = run_replay(sim, rp["knobs"], rp["events"])
    if st.failures:
        clause, msg, detail = st.failures[0]
        print(f"  clause={clause} {msg}")
        print(f"  detail={json.dumps(detail, default=str)[:1500]}")
        print(f"  digest={st.digest()} (recorded {rp.get('digest')})")
        print(f"VIOLATION property={prop} replay={path}")
        return 1
    print(f"replay {path}: no oracle failed ({st.n_events} events, {st.skipped} skipped)")
    return 0
