"""Known findings: committed file, read-only at run time.

Entries: {"id", "property", "status": "open" | "fixed", "commit", "clause", "what_fails", "match": {...}}
Only *open* entries suppress anything, and only when the engine's own re-judging
(`Sim.match_finding`) says the minimised failing case is the listed one.
"""
import json
import os

from . import env

PATH = os.path.join(env.VERIF_DIR, "known_findings.json")


def load():
    if not os.path.exists(PATH):
        return []
    with open(PATH) as f:
        return json.load(f).get("findings", [])


def match(findings, sim, clause, knobs, events):
    for fnd in findings:
        if fnd.get("property") != sim.PROP or fnd.get("status") != "open":
            continue
        if fnd.get("clause") != clause:
            continue
        try:
            if sim.match_finding(fnd, clause, knobs, events):
                return fnd
        except Exception:
            continue
    return None
