"""Randomness seam: np.random.* entry points are module attributes; a run either leaves
them real (seeded per run) or replaces them, for the duration of one call, by a stub
stream with exactly known content."""
import contextlib

import numpy as np

UNIFORM_FAMILY = ("rand", "random", "random_sample", "ranf", "sample", "uniform")
NORMAL_FAMILY = ("randn", "normal", "standard_normal")


class RngStub:
    """Deterministic stand-in.  Uniform entry points return a + (b-a)*u over a fixed
    stratified u (shuffled by a fixed permutation, contains 0 and 1-2**-53); normal
    entry points return m + s*z over a fixed symmetric z with mean 0 and std 1."""

    def __init__(self, perm_seed=0):
        self.hits = {}
        self.perm_seed = perm_seed
        self.last_u = None

    def _u(self, n):
        if n == 0:
            return np.zeros(0)
        base = (np.arange(n) + 0.5) / n
        base[0] = 0.0
        base[-1] = 1.0 - 2.0 ** -53
        rs = np.random.RandomState(1234567 + self.perm_seed)
        self.last_u = rs.permutation(base)
        return self.last_u

    def _z(self, n):
        if n == 0:
            return np.zeros(0)
        from math import sqrt
        # symmetric, mean 0; scaled to unit (population) std
        q = (np.arange(n) + 0.5) / n
        z = np.sqrt(2) * _erfinv(2 * q - 1)
        z = z - z.mean()
        if n > 1:
            z = z / z.std()
        rs = np.random.RandomState(7654321 + self.perm_seed)
        return rs.permutation(z)

    def _shape(self, size):
        if size is None:
            return ()
        if isinstance(size, (int, np.integer)):
            return (int(size),)
        return tuple(int(s) for s in size)

    def make(self, name):
        def uniform_like(*a, **k):
            self.hits[name] = self.hits.get(name, 0) + 1
            if name == "rand":
                shape, lo, hi = tuple(a), 0.0, 1.0
            elif name == "uniform":
                lo = k.get("low", a[0] if len(a) > 0 else 0.0)
                hi = k.get("high", a[1] if len(a) > 1 else 1.0)
                shape = self._shape(k.get("size", a[2] if len(a) > 2 else None))
            else:
                shape, lo, hi = self._shape(k.get("size", a[0] if a else None)), 0.0, 1.0
            n = int(np.prod(shape)) if shape else 1
            return (lo + (hi - lo) * self._u(n)).reshape(shape)

        def normal_like(*a, **k):
            self.hits[name] = self.hits.get(name, 0) + 1
            if name == "randn":
                shape, m, s = tuple(a), 0.0, 1.0
            elif name == "normal":
                m = k.get("loc", a[0] if len(a) > 0 else 0.0)
                s = k.get("scale", a[1] if len(a) > 1 else 1.0)
                shape = self._shape(k.get("size", a[2] if len(a) > 2 else None))
            else:
                shape, m, s = self._shape(k.get("size", a[0] if a else None)), 0.0, 1.0
            n = int(np.prod(shape)) if shape else 1
            return (m + s * self._z(n)).reshape(shape)
        return uniform_like if name in UNIFORM_FAMILY else normal_like

    @contextlib.contextmanager
    def installed(self):
        saved = {}
        for name in UNIFORM_FAMILY + NORMAL_FAMILY:
            if hasattr(np.random, name):
                saved[name] = getattr(np.random, name)
                setattr(np.random, name, self.make(name))
        try:
            yield self
        finally:
            for name, fn in saved.items():
                setattr(np.random, name, fn)


def _erfinv(y):
    """inverse error function (Giles' single-precision-free rational approximation refined by Newton steps)"""
    y = np.clip(np.asarray(y, dtype=np.float64), -1 + 1e-16, 1 - 1e-16)
    w = -np.log((1.0 - y) * (1.0 + y))
    x = np.where(w < 5.0,
                 _poly(w - 2.5, [2.81022636e-08, 3.43273939e-07, -3.5233877e-06, -4.39150654e-06, 0.00021858087, -0.00125372503,
                                 -0.00417768164, 0.246640727, 1.50140941]),
                 _poly(np.sqrt(np.maximum(w, 5.0)) - 3.0, [-0.000200214257, 0.000100950558, 0.00134934322, -0.00367342844, 0.00573950773,
                                                            -0.0076224613, 0.00943887047, 1.00167406, 2.83297682])) * y
    from math import pi
    import numpy as _np
    for _ in range(3):
        err = _erf(x) - y
        x = x - err / (2.0 / _np.sqrt(pi) * _np.exp(-x * x))
    return x


def _poly(t, coeffs):
    p = np.zeros_like(t) + coeffs[0]
    for c in coeffs[1:]:
        p = c + p * t
    return p


def _erf(x):
    from math import erf
    return np.vectorize(erf)(x)


def binom_two_sided_tail(n, k, p):
    """P(|K - np| >= |k - np|) for K ~ Binomial(n, p), computed exactly in log space"""
    from math import lgamma, log, exp
    if p <= 0.0:
        return 1.0 if k == 0 else 0.0
    if p >= 1.0:
        return 1.0 if k == n else 0.0
    d = abs(k - n * p)
    lp, lq = log(p), log(1 - p)
    tot = 0.0
    for j in range(n + 1):
        if abs(j - n * p) >= d - 1e-12:
            tot += exp(lgamma(n + 1) - lgamma(j + 1) - lgamma(n - j + 1) + j * lp + (n - j) * lq)
    return min(1.0, tot)
