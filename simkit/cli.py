"""Entry point: cli.py <ID> [--tier quick|thorough] [--seed N] [--runs N] [--replay FILE] [--digest START COUNT]"""
import os
import sys

sys.path.insert(0, os.path.dirname(os.path.dirname(os.path.abspath(__file__))))
from simkit import env  # noqa: E402  (sets thread env before numpy is imported)


def main(argv):
    import argparse
    ap = argparse.ArgumentParser()
    ap.add_argument("prop")
    ap.add_argument("--tier", default=os.environ.get("VERIF_TIER", "quick"), choices=["quick", "thorough"])
    ap.add_argument("--seed", type=int, default=None)
    ap.add_argument("--runs", type=int, default=None)
    ap.add_argument("--workers", type=int, default=None)
    ap.add_argument("--wall-cap", type=float, default=None)
    ap.add_argument("--replay", default=None)
    ap.add_argument("--digest", nargs=2, type=int, default=None)
    ap.add_argument("--no-selftest", action="store_true")
    ap.add_argument("--show", type=int, default=None, help="print the events of one generated run")
    a = ap.parse_args(argv)
    import numpy as np
    np.seterr(all="ignore")
    from simkit import runner
    seed = a.seed
    if seed is None:
        try:
            seed = int(os.environ.get("VERIF_SEED", runner.DEFAULT_SEED))
        except ValueError:
            seed = runner.DEFAULT_SEED
    try:
        if a.replay:
            return runner.replay_file(a.prop, a.replay)
        if a.digest:
            print(runner.digest_range(a.prop, a.tier, seed, a.digest[0], a.digest[1]))
            return 0
        if a.show is not None:
            import json
            sim = runner.get_sim(a.prop)
            st = runner.run_generated(sim, seed, a.show, a.tier)
            print(json.dumps({"knobs": st.knobs, "events": st.events}, indent=1, default=str))
            print("failures:", st.failures, "probes:", dict(st.probes), "faults:", dict(st.faults), "sig:", st.sig, "notes:", dict(st.notes))
            return 0
        return runner.check(a.prop, a.tier, seed, runs=a.runs, workers=a.workers, wall_cap=a.wall_cap, selftest=not a.no_selftest)
    except env.HarnessError as e:
        print(f"HARNESS-ERROR: {e}", flush=True)
        return 2
    except SystemExit:
        raise
    except BaseException as e:
        import traceback
        traceback.print_exc()
        print(f"HARNESS-ERROR: {type(e).__name__}: {e}", flush=True)
        return 2


if __name__ == "__main__":
    sys.exit(main(sys.argv[1:]))
