"""Shared pieces: PRNG derivation, run state, event sources, digests, array <-> JSON."""
import hashlib
import json
import random
from collections import Counter

import numpy as np

SIM_VERSION = "1"


def derive_rng(seed, prop, run_index):
    h = hashlib.sha256(f"{seed}|{prop}|{run_index}".encode()).digest()
    return random.Random(int.from_bytes(h[:16], "big"))


def derive_int(seed, prop, run_index, salt=""):
    h = hashlib.sha256(f"{seed}|{prop}|{run_index}|{salt}".encode()).digest()
    return int.from_bytes(h[:4], "big")


class StopRun(BaseException):
    """Raised by RunState.fail to abandon a run at its first oracle failure."""


DT = {"f8": np.float64, "f4": np.float32, "i4": np.int32, "i8": np.int64}


def dt_name(dtype):
    dtype = np.dtype(dtype)
    for k, v in DT.items():
        if np.dtype(v) == dtype:
            return k
    return str(dtype)


def enc(a):
    """array -> JSON-able (exact: Python floats repr round-trip)."""
    a = np.asarray(a)
    return {"shape": list(a.shape), "dtype": dt_name(a.dtype), "v": [float(x) if a.dtype.kind == "f" else int(x) for x in a.reshape(-1)]}


def dec(d, layout="C"):
    a = np.array(d["v"], dtype=DT[d["dtype"]]).reshape(d["shape"])
    return lay_out(a, layout)


def lay_out(a, layout):
    """Return an array equal to `a` with the requested memory layout."""
    if a.ndim == 0:
        return a.copy()            # (np.ascontiguousarray would promote 0-d to 1-d)
    if layout == "C":
        return np.ascontiguousarray(a)
    if layout == "F":
        return np.asfortranarray(a)
    if layout == "strided":        # every other element of a larger buffer along the last axis
        big = np.zeros(a.shape[:-1] + (a.shape[-1] * 2 + 1,), dtype=a.dtype)
        view = big[..., 1::2]
        view[...] = a
        return view
    if layout == "neg":            # negative stride along the first axis
        big = np.ascontiguousarray(a[::-1])
        return big[::-1]
    if layout == "offset":         # view into the middle of a larger buffer
        flat = np.zeros(a.size + 7, dtype=a.dtype)
        view = flat[3:3 + a.size].reshape(a.shape)
        view[...] = a
        return view
    raise ValueError(layout)


def adigest(a):
    """short stable digest of an array (shape, dtype, bytes) or None"""
    if a is None:
        return "None"
    a = np.asarray(a)
    h = hashlib.sha256()
    h.update(str(a.shape).encode())
    h.update(str(a.dtype).encode())
    h.update(np.ascontiguousarray(a).tobytes())
    return h.hexdigest()[:12]


def small_values(rng, shape, dtype=np.float64, lo=-2.0, hi=2.0, avoid_zero=False, grid=64):
    """Random dyadic rationals (exactly representable in float32 and float64)."""
    n = int(np.prod(shape)) if len(shape) else 1
    vals = []
    for _ in range(n):
        while True:
            v = rng.randint(int(lo * grid), int(hi * grid)) / grid
            if not avoid_zero or abs(v) >= 0.125:
                break
        vals.append(v)
    return np.array(vals, dtype=dtype).reshape(shape)


class RunState:
    def __init__(self, knobs):
        self.knobs = knobs
        self.events = []          # recorded events (what the replay file contains)
        self.log = []             # observation log (strings) - part of the digest
        self.failures = []        # [(clause, message, detail)]
        self.probes = Counter()   # reach probes
        self.faults = Counter()   # injected faults that actually fired, by kind
        self.sig = []             # coverage-signature parts
        self.nontrivial = False
        self.n_events = 0
        self.skipped = 0          # events skipped in replay because a referenced object no longer exists
        self.notes = Counter()    # other tallies (discarded judgements etc.)

    def fail(self, clause, message, **detail):
        self.failures.append((clause, message, detail))
        raise StopRun()

    def must(self, clause, what, fn, *a, **k):
        """run a system call the property requires to succeed; an exception is a failure of `clause`"""
        from .world import SimFault
        try:
            return fn(*a, **k)
        except (StopRun, SimFault):
            raise
        except Exception as e:
            self.fail(clause, f"{what} raised {type(e).__name__}: {e}")

    def obs(self, *parts):
        self.log.append("|".join(str(p) for p in parts))

    def digest(self):
        h = hashlib.sha256()
        h.update(json.dumps(self.events, sort_keys=True).encode())
        h.update("\n".join(self.log).encode())
        return h.hexdigest()

    def signature(self):
        return hashlib.sha256("|".join(str(s) for s in self.sig).encode()).hexdigest()[:16]


class GenSource:
    """Online generator: asks the sim for the next event given the current state."""

    def __init__(self, sim, rng, max_events):
        self.sim, self.rng, self.max_events = sim, rng, max_events
        self.n = 0

    def next(self, st):
        if self.n >= self.max_events:
            return None
        ev = self.sim.gen(self.rng, st)
        if ev is None:
            return None
        self.n += 1
        st.events.append(ev)
        return ev


class ListSource:
    """Replays a recorded (possibly minimised) event list."""

    def __init__(self, events):
        self.events = list(events)
        self.i = 0

    def next(self, st):
        if self.i >= len(self.events):
            return None
        ev = self.events[self.i]
        self.i += 1
        st.events.append(ev)
        return ev


class Sim:
    """Base class of a simulation engine for one property."""
    PROP = "C00"
    NAME = "sim"
    TECHNIQUE = ""
    QUICK_RUNS = 1000
    THOROUGH_RUNS = 20000
    MAX_EVENTS = 40
    REAL = ["synapgrad (all modules, from the working tree)", "NumPy", "CPython with/exception/iterator machinery"]
    STUB = ["pkbar", "matplotlib.pyplot", "sklearn.metrics"]
    RULE = ""
    ASSUMPTIONS = []

    def knobs(self, rng, tier):
        return {}

    def start(self, knobs):
        return RunState(knobs)

    def gen(self, rng, st):
        return None

    def apply(self, st, ev):
        raise NotImplementedError

    def finish(self, st):
        pass

    def execute(self, st, source):
        while True:
            ev = source.next(st)
            if ev is None:
                break
            st.n_events += 1
            self.apply(st, ev)
        self.finish(st)

    def simplify(self, events):
        """yield candidate simpler event lists (argument-level shrinking); optional"""
        return ()

    def match_finding(self, finding, clause, knobs, events):
        """re-judge a failing (minimised) case against an open known finding"""
        return False
