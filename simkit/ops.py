"""Op catalogue shared by the engines: how to pick operands/arguments for an op given the
tensors that currently exist (online generation: shapes and value ranges are read
from the real tensors), and how to apply it through the public API.

An op event is {"k":"op","op":name,"in":[ids],"args":{...},"out":[ids]} with JSON-able args.
"""
import numpy as np


class Ref:
    __slots__ = ("id", "t", "shape", "rg", "lo", "hi", "kind", "finite", "size")

    def __init__(self, id, t):
        self.id = id
        self.t = t
        d = t.data
        self.shape = tuple(d.shape)
        self.size = int(d.size)
        self.rg = bool(t.requires_grad)
        self.kind = d.dtype.kind
        if d.size and d.dtype.kind == "f":
            self.finite = bool(np.isfinite(d).all())
            self.lo = float(d.min()) if self.finite else float("nan")
            self.hi = float(d.max()) if self.finite else float("nan")
        else:
            self.finite = True
            self.lo = self.hi = 0.0

    @property
    def mag(self):
        return max(abs(self.lo), abs(self.hi))


def decode_index(enc):
    out = []
    for it in enc:
        if it is None:
            out.append(None)
        elif it == "...":
            out.append(Ellipsis)
        elif isinstance(it, int):
            out.append(it)
        elif it[0] == "s":
            out.append(slice(it[1], it[2], it[3]))
        elif it[0] == "l":
            out.append(list(it[1]))
        else:
            raise ValueError(it)
    if len(out) == 1:
        return out[0]
    return tuple(out)


def _bcompat(a, b):
    for x, y in zip(a[::-1], b[::-1]):
        if x != y and x != 1 and y != 1:
            return False
    return True


MAX_ELEMS = 200_000        # results larger than this are never used as operands again (programs must not grow without bound)
HEAVY_MAX = 4096           # operand size limit for the ops whose cost is super-linear in it
HEAVY = {"matmul", "matmul_T", "addmm", "linear", "softmax", "log_softmax", "conv1d", "conv2d", "unfold", "unfold_dim", "max_pool1d", "avg_pool1d",
         "max_pool2d", "avg_pool2d", "batch_norm", "stack", "concat", "cross_entropy", "nll_loss"}


def _floats(pool):
    return [r for r in pool if r.kind == "f" and r.finite and r.size <= MAX_ELEMS]


def _pick(rng, cands):
    return cands[rng.randrange(len(cands))] if cands else None


def _tamed(pool, lim=4.0):
    return [r for r in _floats(pool) if r.mag <= lim]


def _positive(pool, lo=0.25, hi=50.0):
    return [r for r in _floats(pool) if r.lo >= lo and r.hi <= hi]


def _rand_dim(rng, nd, neg_ok=True):
    d = rng.randrange(nd)
    if neg_ok and rng.random() < 0.3:
        d -= nd
    return d


# ------------------------------------------------------------------ generators

def g_binary(rng, pool, sim):
    a = _pick(rng, _tamed(pool, 16.0))
    if a is None:
        return None
    if rng.random() < sim.get("same_operand_p", 0.15):
        return [a.id, a.id], {}
    b = _pick(rng, [r for r in _tamed(pool, 16.0) if _bcompat(a.shape, r.shape)])
    if b is None:
        b = a
    return ([a.id, b.id] if rng.random() < 0.5 else [b.id, a.id]), {}


def g_div(rng, pool, sim):
    a = _pick(rng, _tamed(pool, 16.0))
    if a is None:
        return None
    b = _pick(rng, [r for r in _positive(pool, 0.25, 16.0) if _bcompat(a.shape, r.shape)])
    if b is None:
        return None
    return [a.id, b.id], {}


def g_scalar(rng, pool, sim):
    a = _pick(rng, _tamed(pool, 16.0))
    if a is None:
        return None
    c = rng.choice([-2.0, -1.0, -0.5, 0.5, 1.5, 2.0, 3.0])
    return [a.id], {"c": c}


def g_rdiv(rng, pool, sim):
    a = _pick(rng, _positive(pool, 0.25, 16.0))
    if a is None:
        return None
    return [a.id], {"c": rng.choice([-2.0, 0.5, 1.0, 3.0])}


def g_unary(rng, pool, sim):
    a = _pick(rng, _tamed(pool, 16.0))
    return None if a is None else ([a.id], {})


def g_unary_small(rng, pool, sim):
    a = _pick(rng, _tamed(pool, 3.0))
    return None if a is None else ([a.id], {})


def g_unary_pos(rng, pool, sim):
    a = _pick(rng, _positive(pool))
    return None if a is None else ([a.id], {})


def g_pow(rng, pool, sim):
    if rng.random() < 0.6:
        a = _pick(rng, _tamed(pool, 3.0))
        n = rng.choice([2, 3, 2.0])
    else:
        a = _pick(rng, _positive(pool, 0.25, 4.0))
        n = rng.choice([0.5, 1.5, -1, -0.5, 2.5, -2, 0, 0.0, 1, 1.0])      # (also the boundary exponents: x**0 is still an operation on x)
    return None if a is None else ([a.id], {"n": n})


def g_rpow(rng, pool, sim):
    a = _pick(rng, _tamed(pool, 3.0))
    return None if a is None else ([a.id], {"n": rng.choice([2, 0.5, 3.0, 1.5])})


def g_matmul(rng, pool, sim):
    cands = [r for r in _tamed(pool, 8.0) if len(r.shape) >= 2]
    a = _pick(rng, cands)
    if a is None:
        return None
    bs = [r for r in cands if r.shape[-2] == a.shape[-1] and _bcompat(a.shape[:-2], r.shape[:-2])]
    b = _pick(rng, bs)
    if b is None:
        if a.shape[-1] == a.shape[-2]:
            b = a
        else:
            return None
    return [a.id, b.id], {}


def g_matmul_T(rng, pool, sim):
    """a @ a.transpose(-1,-2): always shape-compatible; uses one tensor on two paths"""
    a = _pick(rng, [r for r in _tamed(pool, 4.0) if len(r.shape) >= 2])
    return None if a is None else ([a.id], {})


def g_addmm(rng, pool, sim):
    cands = [r for r in _tamed(pool, 8.0) if len(r.shape) == 2]
    b = _pick(rng, cands)
    if b is None:
        return None
    c = _pick(rng, [r for r in cands if r.shape[0] == b.shape[1]])
    if c is None:
        return None
    out = (b.shape[0], c.shape[1])
    a = _pick(rng, [r for r in _tamed(pool, 8.0) if len(r.shape) <= 2 and _bcompat(r.shape, out) and
                    np.broadcast_shapes(r.shape, out) == out])
    if a is None:
        return None
    return [a.id, b.id, c.id], {}


def g_slice(rng, pool, sim):
    a = _pick(rng, [r for r in _floats(pool) if len(r.shape) >= 1 and all(s > 0 for s in r.shape)])
    if a is None:
        return None
    keep = sim.get("keep_nd", False)
    idx = []
    used_ellipsis = False
    dims = list(a.shape)
    i = 0
    fancy_done = False
    while i < len(dims):
        n = dims[i]
        r = rng.random()
        if r < 0.08 and not used_ellipsis and i > 0:
            idx.append("...")
            used_ellipsis = True
            break
        if r < 0.16 and not keep:
            idx.append(None)
            continue
        if r < 0.40 and not (keep and len(dims) - i <= 1 and not any(isinstance(x, list) and x[0] == "s" for x in idx)):
            idx.append(rng.randrange(-n, n))
        elif r < 0.48 and not fancy_done and not keep:
            idx.append(["l", [rng.randrange(n) for _ in range(rng.randint(1, 3))]])
            fancy_done = True
        else:
            start = rng.randrange(0, n)
            stop = rng.randint(start + 1, n)
            step = rng.choice([1, 1, 2]) if stop - start > 1 else 1
            if rng.random() < 0.15:
                idx.append(["s", None, None, rng.choice([1, 2, -1])])
            else:
                idx.append(["s", start, stop, step])
        i += 1
        if rng.random() < 0.3:
            break
    if not idx:
        idx = [["s", None, None, 1]]
    return [a.id], {"idx": idx}


def g_concat(rng, pool, sim):
    a = _pick(rng, [r for r in _floats(pool) if len(r.shape) >= 1])
    if a is None:
        return None
    dim = _rand_dim(rng, len(a.shape))
    dpos = dim % len(a.shape)
    def ok(r):
        return len(r.shape) == len(a.shape) and all(x == y for i, (x, y) in enumerate(zip(r.shape, a.shape)) if i != dpos)
    cands = [r for r in _floats(pool) if ok(r)]
    k = rng.choice([0, 1, 1, 2, 3])          # (k = 0: a list with a single tensor is legal)
    ids = [a.id] + [_pick(rng, cands).id for _ in range(k)]
    rng.shuffle(ids)
    return ids, {"dim": dim}


def g_stack(rng, pool, sim):
    a = _pick(rng, _floats(pool))
    if a is None:
        return None
    cands = [r for r in _floats(pool) if r.shape == a.shape]
    k = rng.choice([0, 1, 1, 2, 3])
    ids = [a.id] + [_pick(rng, cands).id for _ in range(k)]
    rng.shuffle(ids)
    dim = rng.randrange(-(len(a.shape) + 1), len(a.shape) + 1)
    return ids, {"dim": dim}


def g_unbind(rng, pool, sim):
    a = _pick(rng, [r for r in _floats(pool) if len(r.shape) >= (2 if sim.get("keep_nd") else 1) and all(s > 0 for s in r.shape)])
    if a is None:
        return None
    dim = _rand_dim(rng, len(a.shape))
    return [a.id], {"dim": dim, "n": a.shape[dim % len(a.shape)]}


def g_reduce(rng, pool, sim):
    a = _pick(rng, [r for r in _tamed(pool, 16.0) if all(s > 0 for s in r.shape)])
    if a is None:
        return None
    nd = len(a.shape)
    keep = sim.get("keep_nd", False)
    r = rng.random()
    if nd == 0 or (r < 0.3 and not keep):
        return [a.id], {"dim": None, "keepdims": bool(rng.random() < 0.3)}
    if r < 0.75 or nd == 1:
        dim = _rand_dim(rng, nd)
    else:
        k = rng.randint(1, nd)
        dims = rng.sample(range(nd), k)
        dim = [d - nd if rng.random() < 0.3 else d for d in dims]
    kd = True if keep else bool(rng.random() < 0.5)
    if keep and r < 0.15:
        return [a.id], {"dim": None, "keepdims": True}
    return [a.id], {"dim": dim, "keepdims": kd}


def g_minmax(rng, pool, sim):
    a = _pick(rng, [r for r in _tamed(pool, 16.0) if len(r.shape) >= 1 and all(s > 0 for s in r.shape)])
    if a is None:
        return None
    dim = _rand_dim(rng, len(a.shape))
    return [a.id], {"dim": dim, "keepdims": bool(rng.random() < 0.5)}


def g_squeeze(rng, pool, sim):
    cands = [r for r in _floats(pool) if 1 in r.shape]
    a = _pick(rng, cands)
    if a is None:
        return None
    ones = [i for i, s in enumerate(a.shape) if s == 1]
    if rng.random() < 0.4 and not sim.get("keep_nd"):
        return [a.id], {"dim": None}
    d = rng.choice(ones)
    if sim.get("keep_nd") and len(a.shape) <= 1:
        return None
    if rng.random() < 0.3:
        d -= len(a.shape)
    return [a.id], {"dim": d}


def g_unsqueeze(rng, pool, sim):
    a = _pick(rng, [r for r in _floats(pool) if len(r.shape) <= 3])
    if a is None:
        return None
    return [a.id], {"dim": rng.randrange(-(len(a.shape) + 1), len(a.shape) + 1)}


def _factorisations(n, rng):
    if n == 0:
        return [0]
    outs = [[n]]
    for a in range(1, n + 1):
        if n % a == 0:
            outs.append([a, n // a])
            for b in range(1, n // a + 1):
                if (n // a) % b == 0:
                    outs.append([a, b, n // a // b])
    return rng.choice(outs)


def g_reshape(rng, pool, sim):
    a = _pick(rng, [r for r in _floats(pool) if int(np.prod(r.shape)) > 0])
    if a is None:
        return None
    n = int(np.prod(a.shape))
    shape = _factorisations(n, rng)
    if rng.random() < 0.3 and len(shape) > 0:
        shape[rng.randrange(len(shape))] = -1
    return [a.id], {"shape": shape}


def g_movedim(rng, pool, sim):
    a = _pick(rng, [r for r in _floats(pool) if len(r.shape) >= 2])
    if a is None:
        return None
    nd = len(a.shape)
    return [a.id], {"src": _rand_dim(rng, nd), "dst": _rand_dim(rng, nd)}


def g_flatten(rng, pool, sim):
    a = _pick(rng, [r for r in _floats(pool) if len(r.shape) >= 1])
    if a is None:
        return None
    nd = len(a.shape)
    s = rng.randrange(nd)
    e = rng.randrange(s, nd)
    if rng.random() < 0.4:
        e = -1
    return [a.id], {"start": s, "end": e}


def g_unfold_dim(rng, pool, sim):
    a = _pick(rng, [r for r in _floats(pool) if len(r.shape) >= 1 and all(s > 0 for s in r.shape)])
    if a is None:
        return None
    d = _rand_dim(rng, len(a.shape))
    n = a.shape[d % len(a.shape)]
    size = rng.randint(1, n)
    return [a.id], {"dim": d, "size": size, "step": rng.randint(1, 3)}


def g_softmax(rng, pool, sim):
    a = _pick(rng, [r for r in _tamed(pool, 8.0) if len(r.shape) == 2 and all(s > 0 for s in r.shape)])
    return None if a is None else ([a.id], {"dim": 1})


def g_loss2(rng, pool, sim):
    a = _pick(rng, _tamed(pool, 8.0))
    if a is None:
        return None
    b = _pick(rng, [r for r in _tamed(pool, 8.0) if r.shape == a.shape])
    return [a.id, b.id], {}


def g_bce(rng, pool, sim):
    a = _pick(rng, [r for r in _floats(pool) if r.lo >= 0.05 and r.hi <= 0.95])
    if a is None:
        return None
    b = _pick(rng, [r for r in _floats(pool) if r.shape == a.shape and r.lo >= 0.0 and r.hi <= 1.0])
    return None if b is None else ([a.id, b.id], {})


def g_class_loss(rng, pool, sim):
    a = _pick(rng, [r for r in _tamed(pool, 8.0) if len(r.shape) == 2 and all(s > 0 for s in r.shape)])
    if a is None:
        return None
    n, c = a.shape
    return [a.id], {"labels": [rng.randrange(c) for _ in range(n)]}


def g_linear(rng, pool, sim):
    xs = [r for r in _tamed(pool, 8.0) if len(r.shape) == 2 and all(s > 0 for s in r.shape)]
    x = _pick(rng, xs)
    if x is None:
        return None
    w = _pick(rng, [r for r in xs if r.shape[1] == x.shape[1]])
    if w is None:
        return None
    ids = [x.id, w.id]
    b = _pick(rng, [r for r in _tamed(pool, 8.0) if r.shape == (w.shape[0],)])
    if b is not None and rng.random() < 0.7:
        ids.append(b.id)
    return ids, {}


def _geom(rng, n):
    """(kernel, stride, padding, dilation) with at least one window over length n"""
    for _ in range(8):
        k = rng.randint(1, min(3, n + 2))
        d = rng.choice([1, 1, 2])
        p = rng.randint(0, k // 2 * d if rng.random() < 0.5 else 0)
        s = rng.randint(1, 3)
        if n + 2 * p - d * (k - 1) - 1 >= 0:
            return k, s, p, d
    return 1, 1, 0, 1


def g_pool1d(rng, pool, sim):
    a = _pick(rng, [r for r in _tamed(pool, 16.0) if len(r.shape) == 3 and all(s > 0 for s in r.shape)])
    if a is None:
        return None
    k, s, p, d = _geom(rng, a.shape[2])
    p = min(p, k // 2)
    return [a.id], {"k": k, "s": s, "p": p, "d": d}


def g_pool2d(rng, pool, sim):
    a = _pick(rng, [r for r in _tamed(pool, 16.0) if len(r.shape) == 4 and all(s > 0 for s in r.shape)])
    if a is None:
        return None
    k1, s1, p1, d1 = _geom(rng, a.shape[2])
    k2, s2, p2, d2 = _geom(rng, a.shape[3])
    p1, p2 = min(p1, k1 // 2), min(p2, k2 // 2)
    if rng.random() < 0.3 and a.shape[2] == a.shape[3]:
        return [a.id], {"k": k1, "s": s1, "p": p1, "d": d1}
    return [a.id], {"k": [k1, k2], "s": [s1, s2], "p": [p1, p2], "d": [d1, d2]}


def g_conv1d(rng, pool, sim):
    x = _pick(rng, [r for r in _tamed(pool, 8.0) if len(r.shape) == 3 and all(s > 0 for s in r.shape)])
    if x is None:
        return None
    ws = [r for r in _tamed(pool, 8.0) if len(r.shape) == 3 and r.shape[1] == x.shape[1] and all(s > 0 for s in r.shape)]
    w = _pick(rng, ws)
    if w is None:
        return None
    k = w.shape[2]
    for _ in range(6):
        d = rng.choice([1, 1, 2]); p = rng.randint(0, 2); s = rng.randint(1, 2)
        if x.shape[2] + 2 * p - d * (k - 1) - 1 >= 0:
            break
    else:
        return None
    ids = [x.id, w.id]
    b = _pick(rng, [r for r in _tamed(pool, 8.0) if r.shape == (w.shape[0],)])
    if b is not None and rng.random() < 0.7:
        ids.append(b.id)
    return ids, {"s": s, "p": p, "d": d}


def g_conv2d(rng, pool, sim):
    x = _pick(rng, [r for r in _tamed(pool, 8.0) if len(r.shape) == 4 and all(s > 0 for s in r.shape)])
    if x is None:
        return None
    ws = [r for r in _tamed(pool, 8.0) if len(r.shape) == 4 and r.shape[1] == x.shape[1] and all(s > 0 for s in r.shape)]
    w = _pick(rng, ws)
    if w is None:
        return None
    kh, kw = w.shape[2], w.shape[3]
    for _ in range(6):
        d = [rng.choice([1, 1, 2]), rng.choice([1, 1, 2])]; p = [rng.randint(0, 1), rng.randint(0, 1)]; s = [rng.randint(1, 2), rng.randint(1, 2)]
        if x.shape[2] + 2 * p[0] - d[0] * (kh - 1) - 1 >= 0 and x.shape[3] + 2 * p[1] - d[1] * (kw - 1) - 1 >= 0:
            break
    else:
        return None
    ids = [x.id, w.id]
    b = _pick(rng, [r for r in _tamed(pool, 8.0) if r.shape == (w.shape[0],)])
    if b is not None and rng.random() < 0.7:
        ids.append(b.id)
    return ids, {"s": s, "p": p, "d": d}


def g_unfold(rng, pool, sim):
    a = _pick(rng, [r for r in _tamed(pool, 16.0) if len(r.shape) == 4 and all(s > 0 for s in r.shape)])
    if a is None:
        return None
    k1, s1, p1, d1 = _geom(rng, a.shape[2])
    k2, s2, p2, d2 = _geom(rng, a.shape[3])
    return [a.id], {"k": [k1, k2], "s": [s1, s2], "p": [p1, p2], "d": [d1, d2]}


def g_batch_norm(rng, pool, sim):
    x = _pick(rng, [r for r in _tamed(pool, 8.0) if len(r.shape) in (2, 3, 4) and all(s > 0 for s in r.shape) and
                    int(np.prod(r.shape)) // r.shape[1] >= 2])
    if x is None:
        return None
    c = x.shape[1]
    vec = [r for r in _tamed(pool, 8.0) if r.shape == (c,)]
    ids = [x.id]
    affine = False
    if len(vec) >= 1 and rng.random() < 0.7:
        ids += [_pick(rng, vec).id, _pick(rng, vec).id]
        affine = True
    return ids, {"affine": affine}


# ------------------------------------------------------------------ application

def _t(SG, data):
    return SG.Tensor(np.array(data))


LIST_DECOYS = None        # engine hook: callable returning the tensors a re-used operand list holds after a concat/stack call


def apply_op(SG, name, xs, args):
    """Apply op `name` to tensors xs through the public API; returns Tensor or tuple."""
    sg, NF = SG.sg, SG.NF
    a = args
    if name == "add": return xs[0] + xs[1]
    if name == "F.add": return sg.add(xs[0], xs[1])
    if name == "mul": return xs[0] * xs[1]
    if name == "sub": return xs[0] - xs[1]
    if name == "div": return xs[0] / xs[1]
    if name == "neg": return -xs[0]
    if name == "F.neg": return sg.neg(xs[0])
    if name == "add_scalar": return xs[0] + a["c"]
    if name == "radd_scalar": return a["c"] + xs[0]
    if name == "mul_scalar": return xs[0] * a["c"]
    if name == "rmul_scalar": return a["c"] * xs[0]
    if name == "sub_scalar": return xs[0] - a["c"]
    if name == "rsub_scalar": return a["c"] - xs[0]
    if name == "div_scalar": return xs[0] / a["c"]
    if name == "rdiv_scalar": return a["c"] / xs[0]
    if name == "square_plus": return xs[0] * xs[0] + 0.5
    if name == "matmul": return xs[0] @ xs[1]
    if name == "matmul_T": return xs[0] @ xs[0].transpose(-1, -2)
    if name == "addmm": return sg.addmm(xs[0], xs[1], xs[2])
    if name == "pow": return xs[0] ** a["n"]
    if name == "rpow": return a["n"] ** xs[0]
    if name == "slice": return xs[0][decode_index(a["idx"])]
    if name in ("concat", "stack"):
        # the operands travel in a caller-owned list which the caller re-uses afterwards (a bucket refilled for the next batch):
        # the graph must not depend on what the list holds after the call
        bucket = list(xs)
        try:
            return (sg.concat if name == "concat" else sg.stack)(bucket, a["dim"])
        finally:
            bucket[:] = LIST_DECOYS() if LIST_DECOYS is not None else []
    if name == "unbind": return sg.unbind(xs[0], a["dim"])
    if name == "clone": return xs[0].clone()
    if name == "exp": return xs[0].exp()
    if name == "log": return xs[0].log()
    if name == "sqrt": return xs[0].sqrt()
    if name in ("sum", "mean"):
        dim = a["dim"]
        if isinstance(dim, list): dim = tuple(dim)
        return getattr(xs[0], name)(dim, a["keepdims"])
    if name in ("max", "min"):
        return getattr(xs[0], name)(a["dim"], a["keepdims"])
    if name == "squeeze": return xs[0].squeeze(a["dim"])
    if name == "unsqueeze": return xs[0].unsqueeze(a["dim"])
    if name == "reshape": return xs[0].reshape(tuple(a["shape"]))
    if name == "movedim": return xs[0].movedim(a["src"], a["dst"])
    if name == "transpose": return xs[0].transpose(a["src"], a["dst"])
    if name == "flatten": return xs[0].flatten(a["start"], a["end"])
    if name == "unfold_dim": return xs[0].unfold(a["dim"], a["size"], a["step"])
    if name == "relu": return sg.relu(xs[0])
    if name == "leaky_relu": return sg.leaky_relu(xs[0], a.get("c", 0.01))
    if name == "selu": return sg.selu(xs[0])
    if name == "tanh": return sg.tanh(xs[0])
    if name == "sigmoid": return sg.sigmoid(xs[0])
    if name == "softmax": return sg.softmax(xs[0], a["dim"])
    if name == "log_softmax": return sg.log_softmax(xs[0], a["dim"])
    if name == "mse_loss": return sg.mse_loss(xs[0], xs[1])
    if name == "bce_logits": return sg.binary_cross_entropy_with_logits(xs[0], xs[1])
    if name == "bce": return sg.binary_cross_entropy(xs[0], xs[1])
    if name == "nll_loss": return sg.nll_loss(xs[0], SG.Tensor(np.array(a["labels"], dtype=np.int64)))
    if name == "cross_entropy": return sg.cross_entropy(xs[0], SG.Tensor(np.array(a["labels"], dtype=np.int64)))
    if name == "nll_loss_t": return sg.nll_loss(xs[0], xs[1])
    if name == "cross_entropy_t": return sg.cross_entropy(xs[0], xs[1])
    if name == "batch_norm_run":
        # xs = x, running_mean, running_var [, weight, bias]
        w, b = (xs[3], xs[4]) if len(xs) > 3 else (None, None)
        return sg.batch_norm(xs[0], w, b, xs[1], xs[2], a["training"], a["momentum"], 1e-5)
    if name == "linear": return sg.linear(xs[0], xs[1], xs[2] if len(xs) > 2 else None)
    if name in ("max_pool1d", "avg_pool1d", "max_pool2d", "avg_pool2d"):
        tup = lambda v: tuple(v) if isinstance(v, list) else v
        return getattr(sg, name)(xs[0], tup(a["k"]), tup(a["s"]), tup(a["p"]), tup(a["d"]))
    if name == "conv1d": return sg.conv1d(xs[0], xs[1], xs[2] if len(xs) > 2 else None, a["s"], a["p"], a["d"])
    if name == "conv2d": return sg.conv2d(xs[0], xs[1], xs[2] if len(xs) > 2 else None, tuple(a["s"]), tuple(a["p"]), tuple(a["d"]))
    if name == "unfold": return sg.unfold(xs[0], tuple(a["k"]), tuple(a["d"]), tuple(a["s"]), tuple(a["p"]))
    if name == "batch_norm":
        if a["affine"]:
            return sg.batch_norm(xs[0], xs[1], xs[2], None, None, True, 0.1, 1e-5)
        return sg.batch_norm(xs[0], None, None, None, None, True, 0.1, 1e-5)
    raise KeyError(name)


class OpSpec:
    def __init__(self, name, gen, smooth=False, nout=1, family="tensor", weight=1.0, view=False):
        self.name, self.gen, self.smooth, self.nout, self.family, self.weight, self.view = name, gen, smooth, nout, family, weight, view


_SPECS = [
    OpSpec("add", g_binary, smooth=True, weight=3), OpSpec("F.add", g_binary, smooth=True), OpSpec("mul", g_binary, smooth=True, weight=3),
    OpSpec("sub", g_binary, smooth=True, weight=2), OpSpec("div", g_div, smooth=True, weight=2),
    OpSpec("neg", g_unary, smooth=True), OpSpec("F.neg", g_unary, smooth=True),
    OpSpec("add_scalar", g_scalar, smooth=True), OpSpec("radd_scalar", g_scalar, smooth=True), OpSpec("mul_scalar", g_scalar, smooth=True),
    OpSpec("rmul_scalar", g_scalar, smooth=True), OpSpec("sub_scalar", g_scalar, smooth=True), OpSpec("rsub_scalar", g_scalar, smooth=True),
    OpSpec("div_scalar", g_scalar, smooth=True), OpSpec("rdiv_scalar", g_rdiv, smooth=True),
    OpSpec("square_plus", g_unary_small, smooth=True, weight=2),
    OpSpec("matmul", g_matmul, smooth=True, weight=2), OpSpec("matmul_T", g_matmul_T, smooth=True), OpSpec("addmm", g_addmm, smooth=True),
    OpSpec("pow", g_pow, smooth=True), OpSpec("rpow", g_rpow, smooth=True),
    OpSpec("slice", g_slice, smooth=True, weight=2, view=True), OpSpec("concat", g_concat, smooth=True), OpSpec("stack", g_stack, smooth=True),
    OpSpec("unbind", g_unbind, smooth=True, nout=0, weight=2, view=True), OpSpec("clone", g_unary, smooth=True),
    OpSpec("exp", g_unary_small, smooth=True), OpSpec("log", g_unary_pos, smooth=True), OpSpec("sqrt", g_unary_pos, smooth=True),
    OpSpec("sum", g_reduce, smooth=True, weight=2), OpSpec("mean", g_reduce, smooth=True, weight=2),
    OpSpec("max", g_minmax), OpSpec("min", g_minmax),
    OpSpec("squeeze", g_squeeze, smooth=True, view=True), OpSpec("unsqueeze", g_unsqueeze, smooth=True, view=True),
    OpSpec("reshape", g_reshape, smooth=True, view=True), OpSpec("movedim", g_movedim, smooth=True, view=True),
    OpSpec("transpose", g_movedim, smooth=True, view=True), OpSpec("flatten", g_flatten, smooth=True, view=True),
    OpSpec("unfold_dim", g_unfold_dim, view=True),
    OpSpec("relu", g_unary, family="nn"), OpSpec("leaky_relu", g_unary, family="nn"), OpSpec("selu", g_unary_small, family="nn"),
    OpSpec("tanh", g_unary, smooth=True, family="nn"), OpSpec("sigmoid", g_unary, smooth=True, family="nn"),
    OpSpec("softmax", g_softmax, family="nn"), OpSpec("log_softmax", g_softmax, family="nn"),
    OpSpec("mse_loss", g_loss2, family="nn"), OpSpec("bce_logits", g_loss2, family="nn"), OpSpec("bce", g_bce, family="nn"),
    OpSpec("nll_loss", g_class_loss, family="nn"), OpSpec("cross_entropy", g_class_loss, family="nn"),
    OpSpec("linear", g_linear, family="nn"),
    OpSpec("max_pool1d", g_pool1d, family="nn"), OpSpec("avg_pool1d", g_pool1d, family="nn"),
    OpSpec("max_pool2d", g_pool2d, family="nn"), OpSpec("avg_pool2d", g_pool2d, family="nn"),
    OpSpec("conv1d", g_conv1d, family="nn"), OpSpec("conv2d", g_conv2d, family="nn"), OpSpec("unfold", g_unfold, family="nn"),
    OpSpec("batch_norm", g_batch_norm, family="nn"),
]
SPECS = {s.name: s for s in _SPECS}
ALL_OPS = [s.name for s in _SPECS]
SMOOTH_OPS = [s.name for s in _SPECS if s.smooth]
TENSOR_OPS = [s.name for s in _SPECS if s.family == "tensor"]


def gen_op(rng, pool, allowed, simopts, tries=6):
    """Pick an applicable op among `allowed` for the current pool -> (name, in_ids, args) or None."""
    names = list(allowed)
    weights = [SPECS[n].weight for n in names]
    for _ in range(tries):
        name = rng.choices(names, weights)[0]
        got = SPECS[name].gen(rng, pool, simopts)
        if got is not None:
            if name in HEAVY:
                by_id = {r.id: r for r in pool}
                if any(by_id[i].size > HEAVY_MAX for i in got[0] if i in by_id):
                    continue
            return name, got[0], got[1]
    return None


def as_list(res):
    return list(res) if isinstance(res, (tuple, list)) else [res]
