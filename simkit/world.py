"""The simulated world: owns every piece of process-global state synapgrad has and the
seams through which the simulator counts events and injects faults.

Seams are installed once per process (wrappers that consult the module-level SEAM
state), and SEAM is reset at the start of every run.
"""
import gc
import io
import random
import sys
import types
import contextlib

import numpy as np

from . import env


class SimFault(BaseException):
    """Marker base for injected faults (BaseException so that library code with a
    bare `except Exception` cannot swallow it unnoticed)."""


class SimAllocFailure(SimFault, MemoryError):
    """F2: allocation failure inside a NumPy kernel."""


class SimInterrupt(SimFault, KeyboardInterrupt):
    """F2: Ctrl-C / 'interrupt kernel' in a notebook."""


class SimExit(SimFault, SystemExit):
    """F2/F3: an exit request (sys.exit in a callback, GeneratorExit-like unwinding): a BaseException that is neither
    Exception nor KeyboardInterrupt"""


class SimBodyError(SimFault, Exception):
    """F3: exception raised by user code the library calls (body of a with block,
    transform, callback)."""


FAULT_TYPES = {"alloc": SimAllocFailure, "interrupt": SimInterrupt, "exit": SimExit, "body": SimBodyError}

DEFAULT_RECURSION = 1000


class Seam:
    def __init__(self):
        self.reset()

    def reset(self):
        self.kernel_entries = 0          # global event sequence number of kernel entries in this run
        self.kernel_names = None         # list of names when tracing is on
        self.fault_at = None             # absolute kernel-entry number at which to raise
        self.fault_kind = None
        self.fault_filter = None         # optional substring the kernel name must contain
        self.fired = []                  # [(kind, kernel name, entry no)]
        self.bw_calls = None             # list of BackwardFunction objects invoked, when tracing is on
        self.bw_fault_at = None          # raise before the k-th backward-function invocation (1-based, relative to bw_count)
        self.bw_count = 0
        self.rng_calls = None            # list of (name, size) when recording
        self.bw_created = None           # list of BackwardFunction objects constructed, when tracing is on

    def arm(self, kind, after_entries, name_filter=None):
        """raise `kind` at the (after_entries)-th kernel entry from now (1 = the next one)"""
        self.fault_at = self.kernel_entries + int(after_entries)
        self.fault_kind = kind
        self.fault_filter = name_filter

    def disarm(self):
        LINES.disarm()
        armed = self.fault_at is not None or self.bw_fault_at is not None
        self.fault_at = None
        self.fault_kind = None
        self.fault_filter = None
        self.bw_fault_at = None
        return armed

    @contextlib.contextmanager
    def armed(self, fault):
        """arm for exactly one system call: `with SEAM.armed(ev.get("fault")): system_call()`; harness code after the call is never a crash point"""
        if fault:
            self.arm_spec(fault)
        try:
            yield
        finally:
            if fault:
                self.disarm()

    def arm_spec(self, fault):
        """fault = {"kind", "seam": "kernel" | "bw" | "line", "at"}"""
        seam = fault.get("seam", "kernel")
        if seam == "kernel":
            self.arm(fault["kind"], fault["at"])
        elif seam == "bw":
            self.arm_bw(fault["kind"], fault["at"])
        else:
            LINES.arm(fault["kind"], fault["at"])

    def arm_bw(self, kind, after_calls):
        self.bw_fault_at = self.bw_count + int(after_calls)
        self.fault_kind = kind


SEAM = Seam()
_installed = False


# ---------------------------------------------------------------- line-level fault seam
# sys.settrace line events inside the package under test are crash points: the simulator raises the injected fault AT the k-th line
# executed inside synapgrad/*.py after arming, i.e. at an arbitrary point of an operation - between two accumulations of one backward
# closure, between "flag cleared" and "flag restored", between two parameters of an optimizer step, inside a with-block of the Trainer.
class LineSeam:
    def __init__(self):
        self.prefix = None
        self.count = 0
        self.at = None
        self.kind = None
        self.where = None
        self._guards = {}

    def _guarded_lines(self, filename):
        """lines of `filename` that sit in the body of a try statement with a bare `except:` / `except BaseException:` handler: an
        exception raised there is not delivered to the caller as raised (the handler replaces it), so such lines are no crash points"""
        g = self._guards.get(filename)
        if g is None:
            import ast
            g = set()
            try:
                tree = ast.parse(open(filename).read())
                for node in ast.walk(tree):
                    if isinstance(node, ast.Try) and any(h.type is None or (isinstance(h.type, ast.Name) and h.type.id == "BaseException") for h in node.handlers):
                        for stmt in node.body:
                            g.update(range(stmt.lineno, (stmt.end_lineno or stmt.lineno) + 1))
                    if isinstance(node, ast.Try):
                        # the `try:` line itself lies before the protected range, and the body of a `finally:` clause IS the recovery
                        # path: neither can be made safe by any Python code (cf. __enter__/__exit__)
                        g.add(node.lineno)
                        for stmt in node.finalbody:
                            g.update(range(stmt.lineno, (stmt.end_lineno or stmt.lineno) + 1))
                        if node.finalbody:
                            g.add(node.finalbody[0].lineno - 1)          # the `finally:` line
                    if isinstance(node, (ast.ListComp, ast.SetComp, ast.DictComp)):
                        # comprehensions are inlined into the enclosing function (PEP 709): an exception raised by a TRACE FUNCTION at the
                        # repeated line events of their loop is not routed through the enclosing handlers (measured: selftest/lineseam.py),
                        # unlike an exception raised by the code itself - so these lines are no crash points
                        g.update(range(node.lineno, (node.end_lineno or node.lineno) + 1))
                    if isinstance(node, (ast.With, ast.AsyncWith)):
                        # the header line of a with statement is visited again when the block is left, between the end of the body and
                        # the call of __exit__: an exception injected by a trace function THERE is outside the protected range (the
                        # interpreter itself does not deliver asynchronous exceptions at that point), so header lines are no crash points
                        last = max([node.lineno] + [getattr(it.context_expr, "end_lineno", node.lineno) or node.lineno for it in node.items])
                        g.update(range(node.lineno, last + 1))
            except Exception:
                pass
            self._guards[filename] = g
        return g

    def _global(self, frame, event, arg):
        if frame.f_code.co_filename.startswith(self.prefix):
            if frame.f_code.co_name in ("__enter__", "__exit__"):
                # the context-manager protocol methods are the recovery path itself: no Python code can promise anything about an
                # interrupt that lands between "mode saved" and "mode set" inside them, so they are not crash points
                return None
            # not below a frame that is currently executing a guarded line
            f = frame.f_back
            while f is not None and f.f_code.co_filename.startswith(self.prefix):
                if f.f_lineno in self._guarded_lines(f.f_code.co_filename):
                    return None
                f = f.f_back
            return self._local
        return None

    def _local(self, frame, event, arg):
        if event == "line" and self.at is not None:
            if frame.f_lineno in self._guarded_lines(frame.f_code.co_filename):
                return self._local
            self.count += 1
            if self.count >= self.at:
                kind, self.at = self.kind, None
                import sys as _sys
                _sys.settrace(None)
                self.where = f"{frame.f_code.co_filename[len(self.prefix):]}:{frame.f_lineno}"
                SEAM.fired.append((kind, "line " + self.where, self.count))
                raise FAULT_TYPES[kind](f"injected {kind} at line event {self.count} ({self.where})")
        return self._local

    def arm(self, kind, at):
        import os as _os
        import sys as _sys
        if self.prefix is None:
            self.prefix = _os.path.join(env.REPO, "synapgrad") + _os.sep
        self.count, self.at, self.kind, self.where = 0, int(at), kind, None
        _sys.settrace(self._global)

    def disarm(self):
        """returns the number of line events seen since arming (a measure of the operation's length)"""
        import sys as _sys
        if self.at is not None or _sys.gettrace() is not None:
            _sys.settrace(None)
        self.at = None
        return self.count


LINES = LineSeam()
_orig = {}


def _wrap_kernel(modname, name, fn):
    full = modname + "." + name

    def kernel(*a, **k):
        S = SEAM
        S.kernel_entries += 1
        if S.kernel_names is not None:
            S.kernel_names.append(name)
        if S.fault_at is not None and S.kernel_entries >= S.fault_at and (S.fault_filter is None or S.fault_filter in name):
            kind = S.fault_kind
            S.fault_at = None
            S.fault_kind = None
            S.fired.append((kind, name, S.kernel_entries))
            raise FAULT_TYPES[kind](f"injected {kind} at kernel entry {S.kernel_entries} ({full})")
        return fn(*a, **k)

    kernel.__name__ = name
    kernel.__wrapped__ = fn
    return kernel


def install_seams():
    """Wrap every public function of cpu_ops / conv_tools and BackwardFunction.__call__."""
    global _installed
    if _installed:
        return
    SG = env.load()
    n = 0
    for modname, mod in (("cpu_ops", SG.cpu_ops), ("conv_tools", SG.conv_tools)):
        for name, fn in sorted(vars(mod).items()):
            if isinstance(fn, types.FunctionType) and not name.startswith("_") and not hasattr(fn, "__wrapped__"):
                _orig[(modname, name)] = fn
                setattr(mod, name, _wrap_kernel(modname, name, fn))
                n += 1
    if n < 40:
        raise env.HarnessError(f"kernel seam: only {n} kernels found in cpu_ops/conv_tools (refactored?)")
    BF = getattr(SG.F, "BackwardFunction", None)
    if BF is None or not callable(getattr(BF, "__call__", None)):
        raise env.HarnessError("backward-function seam: synapgrad.functional.BackwardFunction missing")
    orig_call = BF.__call__

    def traced_call(self, *a, **k):
        S = SEAM
        S.bw_count += 1
        if S.bw_fault_at is not None and S.bw_count >= S.bw_fault_at:
            kind = S.fault_kind
            S.bw_fault_at = None
            S.fault_kind = None
            S.fired.append((kind, "BackwardFunction", S.bw_count))
            raise FAULT_TYPES[kind](f"injected {kind} before backward function #{S.bw_count}")
        if S.bw_calls is not None:
            S.bw_calls.append(self)
        return orig_call(self, *a, **k)

    traced_call.__wrapped__ = orig_call
    BF.__call__ = traced_call
    orig_init = BF.__init__

    def traced_init(self, *a, **k):
        orig_init(self, *a, **k)
        if SEAM.bw_created is not None:
            SEAM.bw_created.append(self)

    traced_init.__wrapped__ = orig_init
    BF.__init__ = traced_init
    _installed = True


class World:
    """Fresh world per run: resets global state of the library, RNGs, interpreter knobs."""

    def __init__(self, np_seed=12345):
        self.SG = env.load()
        install_seams()
        self.reset(np_seed)

    def reset(self, np_seed=12345):
        T = self.SG.T
        if not hasattr(T, "gradient__") or not hasattr(T, "retain_grads__"):
            raise env.HarnessError("mode seam: synapgrad.tensor.gradient__/retain_grads__ missing")
        T.gradient__ = True
        T.retain_grads__ = False
        np.random.seed(np_seed)
        random.seed(np_seed)
        if sys.getrecursionlimit() != DEFAULT_RECURSION:
            sys.setrecursionlimit(DEFAULT_RECURSION)
        SEAM.reset()
        from . import ops as _ops
        _ops.LIST_DECOYS = None

    def modes(self):
        T = self.SG.T
        return bool(T.gradient__), bool(T.retain_grads__)


@contextlib.contextmanager
def quiet():
    """Capture stdout (Tensor.grad prints a warning for non-leaf tensors)."""
    old = sys.stdout
    sys.stdout = io.StringIO()
    try:
        yield
    finally:
        sys.stdout = old


def fresh_modes(SG):
    """Context manager: run a block under default modes (grad on, retain off) and restore
    whatever was in force - used by oracles that need an isolated replay."""
    @contextlib.contextmanager
    def cm():
        T = SG.T
        g, r = T.gradient__, T.retain_grads__
        T.gradient__, T.retain_grads__ = True, False
        S = SEAM
        saved = (S.fault_at, S.fault_kind, S.fault_filter, S.bw_fault_at, S.bw_calls, S.kernel_names)
        saved_created, S.bw_created = S.bw_created, None
        import sys as _sys
        saved_trace = _sys.gettrace()
        if saved_trace is not None:
            _sys.settrace(None)
        counts = (S.kernel_entries, S.bw_count)      # model work is not part of the run's event numbering
        S.fault_at = S.fault_filter = S.bw_fault_at = S.bw_calls = S.kernel_names = None
        try:
            yield
        finally:
            T.gradient__, T.retain_grads__ = g, r
            S.fault_at, S.fault_kind, S.fault_filter, S.bw_fault_at, S.bw_calls, S.kernel_names = saved
            S.kernel_entries, S.bw_count = counts
            S.bw_created = saved_created
            if saved_trace is not None:
                _sys.settrace(saved_trace)
    return cm()
